"""Critical-section predicates of the concurrency family (DESIGN section 2.4c).

The Lean models of C05/C19 take one mutex-protected region / one atomic operation of the Go code as
one atomic step.  Differential execution cannot see whether that is true of the source, so these
predicates check it structurally on $VERIF_REPO's working tree with tools/csconc (a go/ast walker that
prints lock/unlock/field/call events with the set of mutexes held).  They are deliberately coarse."""
import os
import re

from . import core

_BIN = os.path.join(core.VERIF, "tools", "bin", "csconc")


def _events(relpath, func):
    src = os.path.join(core.VERIF, "tools", "csconc")
    if not os.path.exists(_BIN) or os.path.getmtime(_BIN) < os.path.getmtime(os.path.join(src, "main.go")):
        core.run(["go", "build", "-o", _BIN, "."], cwd=src, env=core.GOENV, check=True)
    p = core.run([_BIN, os.path.join(core.REPO, relpath), func])
    if p.returncode != 0:
        return None, "csconc failed for %s %s: %s" % (relpath, func, p.stderr.strip()[:300])
    evs = []
    for line in p.stdout.splitlines():
        m = re.match(r"^(\S+) ?(.*) held=(\S*) depth=(\d+)$", line)
        if m:
            evs.append({"ev": m.group(1), "what": m.group(2), "held": set(filter(None, m.group(3).split(","))),
                        "depth": int(m.group(4)), "line": line})
    return evs, ""


def _touches(e, field):
    return (e["ev"] == "sel" and e["what"] == field) or (e["ev"] == "call" and field in e["what"])


def _all_under(evs, field, mutex):
    bad = [e["line"] for e in evs if e["ev"] == "sel" and e["what"] == field and mutex not in e["held"]]
    return bad


def _drained_exit_atomic(evs, lst, mux, who):
    """The drainer's exit is ONE critical section: `lock; if i == len(list) { reset list; unlock; return }`.
    (The model's step `next`/`take` tests for the drained list and resets it atomically; a submitter that gets in
    between the test and the reset appends to a non-empty list, starts no drainer, and the reset drops its job.)
    Checked on the event list: every `return` of the drainer directly follows an `unlock mux`; the section that this
    unlock ends contains the `len(list)` test and touches the list at least twice more (the reset)."""
    start = next((i for i, e in enumerate(evs) if e["ev"] in ("go", "lit-begin")), None)
    if start is None:
        return "%s: no drainer closure found" % who
    rets = [i for i, e in enumerate(evs) if i > start and e["ev"] == "return"]
    if not rets:
        return "%s: the drainer has no return (function restructured?)" % who
    for r in rets:
        u = next((i for i in range(r - 1, start, -1) if evs[i]["ev"] == "unlock" and evs[i]["what"] == mux), None)
        if u is None:
            return "%s: the drainer returns without having unlocked %s" % (who, mux)
        between = [e["line"] for e in evs[u + 1:r]]
        if between:
            return ("%s: the drainer does something between leaving the critical section of its drained test and "
                    "returning (test and reset must be one critical section): %s" % (who, between[:3]))
        l = next((i for i in range(u - 1, start, -1) if evs[i]["ev"] == "lock" and evs[i]["what"] == mux), None)
        if l is None:
            return "%s: no lock before the drainer's last unlock" % who
        sec = evs[l + 1:u]
        if not any(e["ev"] == "call" and e["what"] == "len(%s)" % lst for e in sec):
            return "%s: the critical section the drainer returns from does not test len(%s)" % (who, lst)
        if sum(1 for e in sec if e["ev"] == "sel" and e["what"] == lst) < 3:
            return ("%s: the critical section of the drained test does not reset %s (test and reset must be one "
                    "critical section): %s" % (who, lst, [e["line"] for e in sec][:6]))
    return ""


def cs_conn_submit(sc):
    """Execute / MustExecute: closed test, emptiness test and append inside c.mux; execute() called unlocked; no go."""
    for fn in ("Conn.Execute", "Conn.MustExecute"):
        evs, err = _events("conn.go", fn)
        if evs is None:
            return False, err
        bad = _all_under(evs, "c.jobList", "c.mux") + _all_under(evs, "c.closed", "c.mux")
        if bad:
            return False, "%s touches the job list / closed flag outside c.mux: %s" % (fn, bad[:3])
        if not any(e["ev"] == "sel" and e["what"] == "c.jobList" for e in evs):
            return False, "%s: no access to c.jobList found (function restructured?)" % fn
        if fn == "Conn.Execute" and not any(e["ev"] == "sel" and e["what"] == "c.closed" for e in evs):
            return False, "Conn.Execute no longer tests c.closed"
        calls = [e for e in evs if e["ev"] == "call" and e["what"].startswith("c.execute(")]
        if not calls or any(e["held"] for e in calls):
            return False, "%s: c.execute must be called exactly with no mutex held: %s" % (fn, [e["line"] for e in calls])
        if any(e["ev"] == "go" for e in evs) or any(e["ev"] == "warn" for e in evs):
            return False, "%s: unexpected go statement / unmergeable lock state: %s" % (fn, [e["line"] for e in evs if e["ev"] in ("go", "warn")][:3])
    return True, ""


def cs_conn_drainer(sc):
    """execute: job() runs with no mutex held; every access to c.jobList is inside c.mux; every path unlocks."""
    evs, err = _events("conn.go", "Conn.execute")
    if evs is None:
        return False, err
    bad = _all_under(evs, "c.jobList", "c.mux")
    if bad:
        return False, "Conn.execute touches c.jobList outside c.mux: %s" % bad[:3]
    jobs = [e for e in evs if e["ev"] == "call" and e["what"] == "job()"]
    if not jobs or any(e["held"] for e in jobs):
        return False, "Conn.execute: job() must be called with no mutex held: %s" % [e["line"] for e in jobs]
    rets = [e for e in evs if e["ev"] in ("return", "lit-end") and e["held"]]
    if rets or any(e["ev"] == "warn" for e in evs):
        return False, "Conn.execute: a path ends with c.mux held / unmergeable lock state: %s" % [e["line"] for e in rets + [x for x in evs if x["ev"] == "warn"]][:3]
    bad = _drained_exit_atomic(evs, "c.jobList", "c.mux", "Conn.execute")
    if bad:
        return False, bad
    return True, ""


def cs_timer_async(sc):
    """Timer.Async: asyncList only under asyncMux; f() unlocked; exactly one go statement."""
    evs, err = _events("timer/timer.go", "Timer.Async")
    if evs is None:
        return False, err
    bad = _all_under(evs, "t.asyncList", "t.asyncMux")
    if bad:
        return False, "Timer.Async touches t.asyncList outside t.asyncMux: %s" % bad[:3]
    fs = [e for e in evs if e["ev"] == "call" and e["what"] == "f()"]
    if not fs or any(e["held"] for e in fs):
        return False, "Timer.Async: f() must be called with no mutex held: %s" % [e["line"] for e in fs]
    if sum(1 for e in evs if e["ev"] == "go") != 1:
        return False, "Timer.Async: expected exactly one go statement"
    if any(e["ev"] == "warn" for e in evs) or any(e["ev"] in ("return", "lit-end") and e["held"] for e in evs):
        return False, "Timer.Async: a path ends with the mutex held"
    bad = _drained_exit_atomic(evs, "t.asyncList", "t.asyncMux", "Timer.Async")
    if bad:
        return False, bad
    return True, ""


def _is_add(e, delta):
    return e["ev"] == "call" and re.match(r"^(atomic|vsys)\.AddInt64\(&tp\.concurrent," + re.escape(delta) + r"\)$", e["what"])


def cs_taskpool_counter(sc):
    """Every increment of tp.concurrent that does not lead to a started worker is undone on that path:
    Go after a failed fork, the dispatcher after a failed fork (defect #10 on the pinned tree), the
    worker by its deferred decrement."""
    evs, err = _events("taskpool/taskpool.go", "TaskPool.Go")
    if evs is None:
        return False, err
    i_fork = next((i for i, e in enumerate(evs) if e["ev"] == "call" and e["what"].startswith("tp.fork(")), None)
    if i_fork is None or not any(_is_add(e, "-1") for e in evs[i_fork:]):
        return False, "TaskPool.Go: no AddInt64(&tp.concurrent, -1) after the failed fork"
    evs, err = _events("taskpool/taskpool.go", "TaskPool.fork")
    if evs is None:
        return False, err
    i_go = next((i for i, e in enumerate(evs) if e["ev"] == "go"), None)
    if i_go is None or not any(e["ev"] == "defer" for e in evs[i_go:i_go + 6]) or not any(_is_add(e, "-1") for e in evs[i_go:i_go + 8]):
        return False, "TaskPool.fork: the worker goroutine does not start with a deferred AddInt64(&tp.concurrent, -1)"
    evs, err = _events("taskpool/taskpool.go", "New")
    if evs is None:
        return False, err
    i_go = next((i for i, e in enumerate(evs) if e["ev"] == "go"), None)
    if i_go is None:
        return False, "taskpool.New: dispatcher goroutine not found"
    disp = evs[i_go:]
    i_fork = next((i for i, e in enumerate(disp) if e["ev"] == "call" and e["what"].startswith("tp.fork(")), None)
    i_call = next((i for i, e in enumerate(disp) if e["ev"] == "call" and e["what"].startswith("tp.caller(")), None)
    if i_fork is None or i_call is None or i_call < i_fork:
        return False, "taskpool.New: dispatcher no longer has the shape fork-else-run-inline"
    if not any(_is_add(e, "-1") for e in disp[i_fork:i_call]):
        return False, ("taskpool.New: the dispatcher runs the task inline after a failed fork without undoing fork's "
                       "AddInt64(&tp.concurrent, 1) (counter leak, DESIGN section 8 #10)")
    return True, ""


def cs_nbhttp_close_routed(sc):
    """nbhttp routes the close handling of a connection through Conn.MustExecute (so that, by
    c05_close_after_earlier, it runs after every handler job queued before it), and the HTTP / WebSocket
    message handlers through Execute."""
    try:
        eng = open(os.path.join(core.REPO, "nbhttp", "engine.go")).read()
        proc = open(os.path.join(core.REPO, "nbhttp", "processor.go")).read()
        ws = open(os.path.join(core.REPO, "nbhttp", "websocket", "conn.go")).read()
    except OSError as ex:
        return False, "cannot read nbhttp sources: %s" % ex
    if not re.search(r"g\.OnClose\(func\(c \*nbio\.Conn, err error\) \{\s*c\.MustExecute\(func\(\) \{", eng):
        return False, "nbhttp/engine.go: the engine's OnClose handler no longer starts with c.MustExecute(func() {"
    if len(re.findall(r"parser\.Execute\(func\(\) \{", proc)) < 2:
        return False, "nbhttp/processor.go: message handlers are no longer submitted through parser.Execute"
    if len(re.findall(r"\bc\.Execute\(func\(\) \{", ws)) < 2:
        return False, "nbhttp/websocket/conn.go: message handlers are no longer submitted through c.Execute"
    return True, ""


def cs_conn_close_flip(sc):
    """closeWithError (the model's `close` step): the test-and-set of c.closed lies inside c.mux, the
    teardown (closeWithErrorWithoutLock -> onClose -> MustExecute of the close handler) runs after the unlock."""
    evs, err = _events("conn_unix.go", "Conn.closeWithError")
    if evs is None:
        return False, err
    bad = _all_under(evs, "c.closed", "c.mux")
    if bad or not any(e["ev"] == "sel" and e["what"] == "c.closed" for e in evs):
        return False, "Conn.closeWithError touches c.closed outside c.mux (or not at all): %s" % bad[:3]
    td = [e for e in evs if e["ev"] == "call" and e["what"].startswith("c.closeWithErrorWithoutLock(")]
    if not td or any(e["held"] for e in td):
        return False, "Conn.closeWithError: teardown must run with no mutex held: %s" % [e["line"] for e in td]
    if any(e["ev"] == "warn" for e in evs):
        return False, "Conn.closeWithError: unmergeable lock state"
    return True, ""
