"""Read path and lifecycle family: C02 (inbound delivery integrity), C03 (connection lifecycle, dial result)."""

READ_RUN = {"harness": "hread", "driver": "gatedrv", "fields": None, "corpus": "life",
            "quick": {"n": 150, "shards": 16}, "thorough": {"n": 2500, "shards": 32}}

PROPS = {
    "C02": {
        "manifest": {
            "text": "Lean theorems on a model of the inbound path (kernel receive queue with LT/ET/ONESHOT readiness as the stated "
                    "assumption, the poller's read loop with its exits, the AsyncRead gate with its read task, one-shot re-arm, UDP "
                    "sessions keyed by a byte-level model of getUDPNetAddrKey): for every configuration and every interleaving of "
                    "arrivals, reports, poller steps and task steps — delivered = dequeued prefix of sent, readEvents in {0,1,2} with at "
                    "most one task, unread input is always owed a report or a read (quiescent => re-reported), every run of internal "
                    "steps is finite, the session key is injective. The model is tied to the code by differential execution of the REAL "
                    "readWriteLoop/AsyncRead/readUDP on virtual descriptors (scripted receive queues, injected epoll batches, a parking "
                    "executor and atomic/read hooks that force chosen schedules), with direct oracles on the implementation alone",
            "note": "proof, partial: kernel readiness semantics of LT/ET/ONESHOT (incl. 'a short read on a stream means the queue was "
                    "empty') and goroutine-level atomicity of the model's steps are assumptions; model fidelity is sampled on every run; "
                    "the 2^31-1 iteration limit of ET mode is modelled as unbounded; NPoller only selects the poller, CPU idleness on a "
                    "real kernel is not measured here (read-call counters on the simulated kernel instead)",
            "technique": "Lean 4 proof (inductive invariant over a small-step transition system, decreasing measure) + differential correspondence"},
        "lean": ["NbioVerif.Properties.C02"], "drivers": ["gatedrv"], "harness": ["hread"],
        "runs": [READ_RUN],
        "oracles": ["c02-"],
        "rule": "case = (mode x sync/async x executor x ReadBufferSize x per-loop limit x transport x NPoller, op sequence of arrivals, "
                "FIN/error/EINTR, faithful and duplicate reports, task steps incl. forced gate schedules); distinct by hash of "
                "(configuration, op kinds with size classes relative to the buffer and the limit, event flags, task pause points); "
                "non-trivial iff at least one report was delivered to the poller",
        "assumptions": ["epoll readiness semantics: LT reports while readable; ET reports an arrival once; ONESHOT reports only while "
                        "armed and EPOLL_CTL_MOD re-evaluates readiness; the ready mask is reported whole (IN whenever readable, "
                        "RDHUP with IN after a FIN, ERR|HUP while a socket error is pending)",
                        "a short read on a stream socket means the receive queue was empty at that instant (the code's own assumption)",
                        "each model step is atomic in the Go code (mutex / single atomic operation / single poller goroutine per fd)",
                        "ET mode's iteration limit 2^31-1 is treated as unbounded"],
    },
}
