"""Read path and lifecycle family: C02 (inbound delivery integrity), C03 (connection lifecycle, dial result)."""
from . import srcgen
from . import cs_life

READ_RUN = {"harness": "hread", "driver": "gatedrv", "fields": None, "corpus": "life",
            "quick": {"n": 500, "shards": 16}, "thorough": {"n": 2500, "shards": 32}}

LIFE_RUN = {"harness": "hlife", "driver": "lifedrv", "fields": None, "corpus": "life3",
            "quick": {"n": 250, "shards": 16}, "thorough": {"n": 1500, "shards": 32}}

PROPS = {
    "C02": {
        "manifest": {
            "text": "Lean theorems on a model of the inbound path (kernel receive queue with LT/ET/ONESHOT readiness as the stated "
                    "assumption, the poller's read loop with its exits, the AsyncRead gate with its read task, one-shot re-arm, UDP "
                    "sessions keyed by a byte-level model of getUDPNetAddrKey): for every configuration and every interleaving of "
                    "arrivals, reports, poller steps and task steps — delivered = dequeued prefix of sent, readEvents in {0,1,2} with at "
                    "most one task, unread input is always owed a report or a read (quiescent => re-reported), every run of internal "
                    "steps is finite, the session key is injective. The model is tied to the code by differential execution of the REAL "
                    "readWriteLoop/AsyncRead/readUDP on virtual descriptors (scripted receive queues, injected epoll batches, a parking "
                    "executor and atomic/read hooks that force chosen schedules), with direct oracles on the implementation alone",
            "note": "proof, partial: kernel readiness semantics of LT/ET/ONESHOT (incl. 'a short read on a stream means the queue was "
                    "empty') and goroutine-level atomicity of the model's steps are assumptions; model fidelity is sampled on every run; "
                    "the 2^31-1 iteration limit of ET mode is modelled as unbounded; NPoller only selects the poller, CPU idleness on a "
                    "real kernel is measured only in the supporting real-socket cases (60 ms window); read-call counters on the simulated kernel",
            "technique": "Lean 4 proof (inductive invariant over a small-step transition system, decreasing measure) + differential correspondence"},
        "lean": ["NbioVerif.Properties.C02", srcgen.BRIDGE_CONN], "drivers": ["gatedrv"], "harness": ["hread"],
        "facts": [srcgen.src_facts],
        "runs": [READ_RUN],
        "oracles": ["c02-"], "cs": cs_life.C02_CS,
        "rule": "case = (mode x sync/async x executor x ReadBufferSize x per-loop limit x transport x NPoller, op sequence of arrivals, "
                "FIN/error/EINTR, faithful and duplicate reports, task steps incl. forced gate schedules); distinct by hash of "
                "(configuration, op kinds with size classes relative to the buffer and the limit, event flags, task pause points); "
                "non-trivial iff at least one report was delivered to the poller",
        "assumptions": ["epoll readiness semantics: LT reports while readable; ET reports an arrival once; ONESHOT reports only while "
                        "armed and EPOLL_CTL_MOD re-evaluates readiness; the ready mask is reported whole (IN whenever readable, "
                        "RDHUP with IN after a FIN, ERR|HUP while a socket error is pending)",
                        "a short read on a stream socket means the receive queue was empty at that instant (the code's own assumption)",
                        "each model step is atomic in the Go code (mutex / single atomic operation / single poller goroutine per fd)",
                        "ET mode's iteration limit 2^31-1 is treated as unbounded"],
    },
    "C03": {
        "manifest": {
            "text": "Lean theorems on a lifecycle model at critical-section granularity (closed flag flipped under the mutex in "
                    "five places, teardown outside the lock only by the flipper, addConn's three statements, dial state): for every "
                    "kind of conn, every history and every interleaving — at most one close notification and exactly one once the "
                    "teardown is complete, never before the open notification, closeErr = argument of the flipping step and stable "
                    "afterwards, operations after the flip fail without a syscall, Close idempotent, dial outcome reported at most "
                    "once / exactly once when the dial is over / success only if the kernel connected. The model is tied to the code "
                    "by differential execution of the REAL engine (AddConn, acceptor, DialAsync with scripted connect/SO_ERROR, "
                    "poller loop, N closers released from a barrier, deadlines, injected write/flush/sendfile/read errors, overflow, "
                    "Stop) on virtual descriptors plus real loopback sockets, with direct oracles on the implementation alone",
            "note": "proof, partial: goroutine-level atomicity of the flag flip / of each model step and 'nobody reaches a conn before "
                    "it was announced' are assumptions (enabling conditions of the model); winner of concurrent closers and of two "
                    "timers armed for the same instant are inputs observed from the run; model fidelity is sampled on every run; the "
                    "real-socket steps (accept, client close/reset, real refused dial) are supporting evidence",
            "technique": "Lean 4 proof (inductive invariant over a small-step transition system) + differential correspondence"},
        "lean": ["NbioVerif.Properties.C03", srcgen.BRIDGE_CONN], "drivers": ["lifedrv"], "harness": ["hlife"],
        "facts": [srcgen.src_facts],
        "runs": [LIFE_RUN],
        "oracles": ["c03-"], "cs": cs_life.C03_CS,
        "rule": "case = (epoll mode, NPoller, write-buffer limit, history over up to four conns of kinds added/dialed/UDP listener+"
                "sessions/accepted/really dialed: traffic, scripted kernel answers, dial outcomes, k concurrent closers with distinct "
                "errors, deadlines, operations after close, Stop); distinct by hash of (configuration, op kinds with flags/answers/"
                "closer counts/dial outcome/timer cause); non-trivial iff a conn was closed, dialed or hit by an event",
        "assumptions": ["the test-and-set of the closed flag is atomic (mutex); each model step is atomic in the Go code",
                        "a conn is not reachable by other goroutines before its open notification / dial registration",
                        "the kernel reports the result of a non-blocking connect through writability and SO_ERROR"],
    },
}
