"""Read path and lifecycle family: C02 (inbound delivery integrity), C03 (connection lifecycle, dial result)."""
from . import srcgen
from . import cs_life

READ_RUN = {"harness": "hread", "driver": "gatedrv", "fields": None, "corpus": "life",
            "quick": {"n": 500, "shards": 16}, "thorough": {"n": 2500, "shards": 32}}

LIFE_RUN = {"harness": "hlife", "driver": "lifedrv", "fields": None, "corpus": "life3",
            "quick": {"n": 250, "shards": 16}, "thorough": {"n": 1500, "shards": 32}}

PROPS = {
    "C02": {
        "manifest": {
            "text": "Lean theorems on a model of the inbound path (kernel receive queue with LT/ET/ONESHOT readiness as the stated "
                    "assumption, the poller's read loop with its exits, the AsyncRead gate with its read task, one-shot re-arm, UDP "
                    "sessions keyed by a byte-level model of getUDPNetAddrKey): for every configuration and every interleaving of "
                    "arrivals, reports, poller steps and task steps — delivered = dequeued prefix of sent, readEvents in {0,1,2} with at "
                    "most one task, unread input is always owed a report or a read (quiescent => re-reported), the owed report is an "
                    "enabled step of the model and with unread input some step is always enabled (c02_progress), every run of internal "
                    "steps is finite, a close on a peer half-close leaves nothing unread, the session key is injective. The model is tied to the code by differential execution of the REAL "
                    "readWriteLoop/AsyncRead/readUDP on virtual descriptors (scripted receive queues, injected epoll batches, a parking "
                    "executor and atomic/read hooks that force chosen schedules), with direct oracles on the implementation alone",
            "note": "proof, partial: kernel readiness semantics of LT/ET/ONESHOT (incl. 'a short read on a stream means the queue was "
                    "empty') and goroutine-level atomicity of the model's steps are assumptions; model fidelity is sampled on every run; "
                    "the 2^31-1 iteration limit of ET mode is modelled as unbounded; LT readiness is the kernel's by assumption, so the "
                    "no-lost-edge / quiescence theorems carry content for ET and ONESHOT only; no liveness theorem composes progress, "
                    "finiteness and delivery into 'eventually delivered' (fairness of the kernel's reports would be the hypothesis); the "
                    "ReadPath model has one conn per engine and its UDP sessions only grow; session turnover by UDPReadTimeout is a "
                    "separate logical-time model (UdpSess: c02_udp_active_session — an active remote keeps ONE session because every "
                    "datagram renews the deadline), run by gatedrv in the timed UDP cases (real time, 300 ms timeout, gaps of 0.6 x "
                    "timeout, one-sided: a close that comes late is not judged, an overslept wait ends the comparison); the model admits spurious reports and does not model write interest, so 'readers go idle' is "
                    "proved for the internal steps between reports and MEASURED on real sockets (poller wake-ups and read calls on real "
                    "descriptors while no input is pending, five 60 ms windows, incl. after an immediate DialAsync connect); NPoller only selects the poller; read-call counters on the simulated kernel; "
                    "the executor is not a model parameter: task steps interleave arbitrarily, assuming any IOExecute runs each submitted "
                    "task exactly once; def/park/real are harness wrappers; c02_udp_demux assumes well-formed addresses of one family; "
                    "attribution of stream data among several live conns (descriptor table lookup, events of several conns in one batch, "
                    "descriptor number reuse with stale readable events) is JUDGED by the per-conn oracle c02-delivery and the side= "
                    "correspondence on hread's side conns, in the synchronous-read configurations only; the theorem c02_attribution on "
                    "the table model FdTable is true by construction (every conn of the model has a socket of its own and the proof never "
                    "uses the lookup function: it would survive any lookup) — it states the bookkeeping the driver prints, not a property of "
                    "the dispatch; with read tasks (AsyncReadInPoller) attribution is neither proved nor judged by an oracle (hlife checks "
                    "only data-after-close), and a stale HANG-UP event on a reused descriptor number (it would close the new conn) is not "
                    "exercised; the write-interest registration gatedrv predicts for the backlog op (ctl= literals Ar/Arwe/Areo/Mrw/Mreo) "
                    "is driver code — ReadPath has no write interest; the bridge lemmas printed in Audit/C02 (src_masks_wellformed, "
                    "Life.interest_wrappers, Life.interest_hangup) are about the source masks and Life.interest, which gatedrv does not run: "
                    "they support ReadPath's assumption 'a FIN is reported with the hang-up flag' in prose only",
            "technique": "Lean 4 proof (inductive invariant over a small-step transition system, decreasing measure) + differential correspondence"},
        "lean": ["NbioVerif.Properties.C02", srcgen.BRIDGE_CONN, "NbioVerif.Lemmas.SrcBridgeLife"], "drivers": ["gatedrv"], "harness": ["hread"],
        "facts": [srcgen.src_facts],
        "runs": [READ_RUN],
        "oracles": ["c02-"], "cs": cs_life.C02_CS,
        "rule": "case = (mode x sync/async x executor x ReadBufferSize x per-loop limit x transport x NPoller, op sequence of arrivals, "
                "FIN/error/EINTR, write backlog (writing event armed), faithful and duplicate reports, task steps incl. forced gate schedules, further "
                "stream conns with descriptor number reuse); distinct by hash of "
                "(configuration, op kinds with size classes relative to the buffer and the limit, event flags, task pause points); "
                "non-trivial iff at least one report was delivered to the poller",
        "assumptions": ["epoll readiness semantics: LT reports while readable; ET reports an arrival once; ONESHOT reports only while "
                        "armed and EPOLL_CTL_MOD re-evaluates readiness; the ready mask is reported whole (IN whenever readable, "
                        "RDHUP with IN after a FIN, ERR|HUP while a socket error is pending)",
                        "a short read on a stream socket means the receive queue was empty at that instant (the code's own assumption)",
                        "each model step is atomic in the Go code (mutex / single atomic operation / single poller goroutine per fd)",
                        "ET mode's iteration limit 2^31-1 is treated as unbounded"],
    },
    "C03": {
        "manifest": {
            "text": "Lean theorems on a lifecycle model at critical-section granularity (closed flag flipped under the mutex in "
                    "five places, teardown outside the lock only by the flipper, addConn's closed test and four statements, dial "
                    "start / failure before registration / separately armed dial timeout, the kernel's connect verdict chosen once, "
                    "ghost wait-group counter): for every kind of conn (added, accepted, dialed, UDP session, UDP listener), every "
                    "history and every interleaving of Life.step from Life.mk — at most one close notification, exactly one once the "
                    "teardown of a conn a poller owns is complete, none for a conn nobody ever saw, never before the open notification, "
                    "the wait group never negative and released at the end, closeErr = argument of the flipping step and stable "
                    "afterwards, no step touches the descriptor after the teardown, a torn-down conn has its OWN in-table flag clear (a "
                    "single-conn statement), dial "
                    "outcome reported at most once / exactly once when the dial is over / success only if the kernel's verdict is "
                    "success, the dial timeout never closes a conn reported as connected. Exactly-one holds in every interleaving; "
                    "the ORDER and wait-group clauses have one stated exception, reachable in the code: the user's own Close racing "
                    "its AddConn after c.p = p/Unlock, before the open notification (c03_raced_close_before_open). The driver changes a conn's state through Life.step only (a disabled step is a MODEL-ERROR), so "
                    "the compared states are the states the theorems quantify over. Tie: differential execution of the REAL engine "
                    "(AddConn incl. of a closed conn, acceptor, DialAsync with scripted connect/SO_ERROR and a connect completing "
                    "inside DialAsync, poller loop with synchronous reads or read tasks incl. a hang-up arriving while a task is busy, N closers released from a barrier, deadlines, injected write/flush/sendfile/read "
                    "errors, overflow, Stop) on virtual descriptors plus real loopback sockets, with direct oracles on the "
                    "implementation alone",
            "note": "proof, partial: goroutine-level atomicity of each model step (critical-section predicates) and the enabling "
                    "conditions 'nobody but the caller of AddConn reaches a conn before it was announced / registered' are "
                    "assumptions; for 'never before its open notification' and the wait group the AddConn/Close race of the holder of the "
                    "*Conn (after c.p = p/Unlock, before the open notification) is excluded by hypothesis raced = false although it is a "
                    "reachable violation of the property's text (model counterexample c03_raced_close_before_open; not reproduced on the "
                    "code: no hook point between the Unlock and the wgConn.Add inside the open wrapper); which of k concurrent closers wins and "
                    "which of two timers armed for the same instant fires are nondeterministic in the model and resolved from the "
                    "observed run (winner=/cause= annotations: the model is told WHO, it computes the error; membership is judged by "
                    "the oracle c03-first-cause) — every other op is serialized by the harness; listener-closes-sessions and "
                    "Stop-closes-the-table are compositions in the driver over single-conn models (sampled, not proved); model "
                    "fidelity is sampled on every run; the real-socket steps (accept, client close/reset, real refused dial, peer FIN "
                    "on a dialed conn) are supporting evidence; c03_table is about one conn's own flag: 'addConn never touches the table entry "
                    "of the descriptor number's NEW owner' is not expressible in the single-conn model Life — it rests on the two-conn driver "
                    "composition (op addcr), the oracle c03-close-once and the addconn predicate; of addConn's failure branches the model and "
                    "the harness cover 'descriptor number beyond the table' (table-too-small dimension: flip + teardown with no poller) and "
                    "'closed by the open callback' (refused before the table store); the branch 'EPOLL_CTL_ADD fails on an open conn' "
                    "(clear the entry, closeWithError) is neither a model step (addReg always succeeds) nor exercised for addConn — only "
                    "its sibling in addDialer is (dialx); c03_closed_ops holds by definition of the model's op/flip steps; that the "
                    "five entry points test the flag under the mutex rests on the closed-test predicates and the ops/log= correspondence; "
                    "the wait-group ghost is not an observable of the correspondence; it is tied only through 'Stop returns' and Go's "
                    "negative-counter panic",
            "technique": "Lean 4 proof (inductive invariant over a small-step transition system) + differential correspondence"},
        "lean": ["NbioVerif.Properties.C03", srcgen.BRIDGE_CONN, "NbioVerif.Lemmas.SrcBridgeLife"], "drivers": ["lifedrv"], "harness": ["hlife"],
        "facts": [srcgen.src_facts],
        "runs": [LIFE_RUN],
        "oracles": ["c03-"], "cs": cs_life.C03_CS,
        "rule": "case = (epoll mode, NPoller, write-buffer limit, listener, AsyncReadInPoller, connection table normal / too small, history over up to four conns of kinds added/dialed/UDP listener+"
                "sessions/accepted/really dialed: traffic, scripted kernel answers, dial outcomes, k concurrent closers with distinct "
                "errors, deadlines, operations after close, Stop); distinct by hash of (configuration, op kinds with flags/answers/"
                "closer counts/dial outcome/timer cause); non-trivial iff a conn was closed, dialed or hit by an event",
        "assumptions": ["the test-and-set of the closed flag is atomic (mutex); each model step is atomic in the Go code",
                        "an accepted conn, a UDP session and a dialing conn are not reachable by other goroutines before their open "
                        "notification / dial registration; the caller of AddConn may close its conn at any time; for the order and "
                        "wait-group clauses: not after addConn's c.p = p/Unlock and before its open notification "
                        "(Life.c03_raced_close_before_open)",
                        "the kernel decides once how a non-blocking connect ends and reports it through writability and SO_ERROR",
                        "winner of concurrent closers / of two timers armed for the same instant: observed from the run (echoed input)"],
    },
}
