#!/bin/sh
# Build the framework offline: Lean project (models, proofs, drivers) and Go tools.
set -e
cd "$(dirname "$0")"
export GOFLAGS=-mod=mod GOPROXY=off GOSUMDB=off GOTOOLCHAIN=local CGO_ENABLED=0
mkdir -p tools/bin evidence replays
for t in rewriter csfacts; do
  if [ -d tools/$t ]; then (cd tools/$t && go build -o ../bin/$t .); fi
done
(cd lean && lake build)
echo setup ok
