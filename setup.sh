#!/bin/sh
# Build the framework offline: Lean project (models, proofs, drivers) and Go tools.
set -e
cd "$(dirname "$0")"
export GOFLAGS=-mod=mod GOPROXY=off GOSUMDB=off GOTOOLCHAIN=local CGO_ENABLED=0
mkdir -p tools/bin evidence replays
for t in rewriter csfacts; do
  if [ -d tools/$t ]; then (cd tools/$t && go build -o ../bin/$t .); fi
done
# a module that fails here is reported by the check that needs it (each check builds its own modules)
(cd lean && lake build) || echo "setup: lake build reported failures; the affected checks will report them"
echo setup ok
