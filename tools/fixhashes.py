#!/usr/bin/env python3
"""Fill the /repo commit hash into known_findings.json "fixed" entries written by the builders as
"fixed: property=<id> fix: <subject> -- <what failed>"."""
import json, re, subprocess, os
V = os.path.dirname(os.path.dirname(os.path.abspath(__file__)))
p = os.path.join(V, "known_findings.json")
k = json.load(open(p))
log = subprocess.run(["git", "-C", "/repo", "log", "--format=%h %s"], stdout=subprocess.PIPE, text=True).stdout.strip().split("\n")
hmap = {l.split(" ", 1)[1]: l.split(" ", 1)[0] for l in log}
out = []
for f in k["fixed"]:
    m = re.match(r"fixed: property=(\S+) (fix: .*?) -- (.*)", f)
    if m and m.group(2) in hmap:
        out.append("fixed: property=%s %s (%s) -- %s" % (m.group(1), hmap[m.group(2)], m.group(2), m.group(3)))
    else:
        out.append(f)
        if not re.match(r"fixed: property=\S+ [0-9a-f]{7}", f):
            print("unmatched:", f[:100])
k["fixed"] = out
json.dump(k, open(p, "w"), indent=1)
