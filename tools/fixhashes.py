#!/usr/bin/env python3
"""Fill the /repo commit hash into known_findings.json "fixed" entries written by the builders as
"fixed: property=<id> fix: <subject> ..."; the subject is looked up in /repo's log."""
import json, re, subprocess, os
V = os.path.dirname(os.path.dirname(os.path.abspath(__file__)))
p = os.path.join(V, "known_findings.json")
k = json.load(open(p))
log = subprocess.run(["git", "-C", "/repo", "log", "--format=%h %s"], stdout=subprocess.PIPE, text=True).stdout.strip().split("\n")
subs = sorted(((l.split(" ", 1)[1], l.split(" ", 1)[0]) for l in log if " fix:" in " " + l), key=lambda x: -len(x[0]))
out = []
for f in k["fixed"]:
    m = re.match(r"fixed: property=(\S+) ([0-9a-f]{7}) ", f)
    if m and any(h == m.group(2) for _, h in subs):
        out.append(f)
        continue
    hit = next(((s, h) for s, h in subs if s in f or s[:90] in f), None)
    if hit:
        s, h = hit
        m = re.match(r"fixed: property=(\S+) ", f)
        rest = f[m.end():]
        rest = re.sub(r"^[0-9a-f]{7} ", "", rest)
        rest = rest.replace(s, "").strip()
        rest = re.sub(r"^\(\)\s*", "", rest)
        rest = re.sub(r"^(--|\|)\s*", "", rest)
        out.append("fixed: property=%s %s (%s) -- %s" % (m.group(1), h, s, rest))
    else:
        out.append(f)
        print("unmatched:", f[:110])
k["fixed"] = out
json.dump(k, open(p, "w"), indent=1)
