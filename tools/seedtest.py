#!/usr/bin/env python3
"""Run checks against a seeded mutation:  tools/seedtest.py <seeded-dir> [PROP...] [--tier quick]

Copies /repo's working tree to a scratch directory, applies <seeded-dir>/patch.diff there, runs the
checks of the named properties (default: the property in meta.json) with VERIF_REPO pointing at the
copy, prints which ones reported a VIOLATION, removes the copy."""
import json
import os
import shutil
import subprocess
import sys
import tempfile

V = os.path.dirname(os.path.dirname(os.path.abspath(__file__)))


def main():
    args = [a for a in sys.argv[1:] if not a.startswith("--")]
    tier = "quick"
    if "--thorough" in sys.argv:
        tier = "thorough"
    d = args[0]
    meta = json.load(open(os.path.join(d, "meta.json")))
    props = args[1:] or [meta["property"]]
    tmp = tempfile.mkdtemp(prefix="seedrun-")
    try:
        repo = os.path.join(tmp, "repo")
        subprocess.run(["rsync", "-a", "--exclude", ".git", "/repo/", repo + "/"], check=True)
        p = subprocess.run(["git", "apply", "--unsafe-paths", "--directory", repo, os.path.abspath(os.path.join(d, "patch.diff"))],
                           cwd=repo, stdout=subprocess.PIPE, stderr=subprocess.STDOUT, text=True)
        if p.returncode != 0:
            p = subprocess.run(["patch", "-p1", "-d", repo, "-i", os.path.abspath(os.path.join(d, "patch.diff"))],
                               stdout=subprocess.PIPE, stderr=subprocess.STDOUT, text=True)
            if p.returncode != 0:
                print("PATCH DOES NOT APPLY:", p.stdout[-800:])
                return 2
        res = {}
        for pid in props:
            env = dict(os.environ, VERIF_REPO=repo, VERIF_NO_CLEAN="1", VERIF_EVIDENCE_DIR=os.path.join(tmp, "evidence"),
                       VERIF_REPLAY_DIR=os.path.join(V, "replays", "seeded"))
            q = subprocess.run([os.path.join(V, "check"), pid, "--tier", tier], cwd=V, env=env, stdout=subprocess.PIPE,
                               stderr=subprocess.PIPE, text=True)
            viol = [l for l in q.stdout.split("\n") if l.startswith("VIOLATION")]
            res[pid] = ("CAUGHT" if q.returncode == 1 and viol else "missed rc=%d" % q.returncode, viol[:2])
            print(pid, res[pid][0], *viol[:2], sep="\n  ")
        return 0
    finally:
        shutil.rmtree(tmp, ignore_errors=True)
        # regenerated facts were computed from the MUTATED tree: restore the committed ones
        subprocess.run(["git", "-C", V, "checkout", "--", "lean/NbioVerif/Generated"], stdout=subprocess.DEVNULL, stderr=subprocess.DEVNULL)


if __name__ == "__main__":
    sys.exit(main())
