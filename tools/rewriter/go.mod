module rewriter
go 1.21
