// rewriter: reroute selected syscall.* calls in package nbio to vsys.*
package main

import (
	"bytes"
	"fmt"
	"go/ast"
	"go/format"
	"go/parser"
	"go/token"
	"os"
	"path/filepath"
	"strconv"
)

var reroute = map[string]bool{
	"Write": true, "Read": true, "Recvfrom": true, "Sendto": true, "Sendfile": true,
	"Close": true, "Dup": true, "EpollCtl": true, "EpollWait": true, "Syscall": true,
	"Connect": true, "GetsockoptInt": true,
}

func main() {
	for _, path := range os.Args[1:] {
		n := 0
		fset := token.NewFileSet()
		f, err := parser.ParseFile(fset, path, nil, parser.ParseComments)
		if err != nil {
			panic(err)
		}
		changed := false
		ast.Inspect(f, func(nd ast.Node) bool {
			call, ok := nd.(*ast.CallExpr)
			if !ok {
				return true
			}
			sel, ok := call.Fun.(*ast.SelectorExpr)
			if !ok {
				return true
			}
			id, ok := sel.X.(*ast.Ident)
			if !ok {
				return true
			}
			if id.Name == "atomic" && (sel.Sel.Name == "AddInt32" || sel.Sel.Name == "AddInt64") {
				id.Name = "vsys"
				changed = true
				n++
				return true
			}
			if id.Name != "syscall" || !reroute[sel.Sel.Name] {
				return true
			}
			id.Name = "vsys"
			changed = true
			n++
			return true
		})
		// drop "sync/atomic" if no longer referenced
		stillAtomic := false
		ast.Inspect(f, func(nd ast.Node) bool {
			if sel, ok := nd.(*ast.SelectorExpr); ok {
				if id, ok := sel.X.(*ast.Ident); ok && id.Name == "atomic" {
					stillAtomic = true
				}
			}
			return true
		})
		if !stillAtomic {
			for _, d := range f.Decls {
				if gd, ok := d.(*ast.GenDecl); ok && gd.Tok == token.IMPORT {
					var keep []ast.Spec
					for _, sp := range gd.Specs {
						if is, ok := sp.(*ast.ImportSpec); ok && is.Path.Value == strconv.Quote("sync/atomic") {
							continue
						}
						keep = append(keep, sp)
					}
					gd.Specs = keep
				}
			}
		}
		fmt.Println(filepath.Base(path), n)
		if !changed {
			continue
		}
		// add import
		imp := &ast.ImportSpec{Path: &ast.BasicLit{Kind: token.STRING, Value: strconv.Quote("github.com/lesismal/nbio/vsys")}}
		for _, d := range f.Decls {
			if gd, ok := d.(*ast.GenDecl); ok && gd.Tok == token.IMPORT {
				gd.Specs = append(gd.Specs, imp)
				if !gd.Lparen.IsValid() {
					gd.Lparen = gd.Pos()
					gd.Rparen = gd.End()
				}
				break
			}
		}
		var buf bytes.Buffer
		if err := format.Node(&buf, fset, f); err != nil {
			panic(err)
		}
		if err := os.WriteFile(path, buf.Bytes(), 0644); err != nil {
			panic(err)
		}
	}
}
