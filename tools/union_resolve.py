#!/usr/bin/env python3
"""Resolve conflict hunks in line-list files (Audit/*.lean etc.) by union: HEAD's lines + the other side's new lines."""
import re, sys
for path in sys.argv[1:]:
    s = open(path).read()
    pat = re.compile(r"<<<<<<< [^\n]*\n(.*?)=======\n(.*?)>>>>>>> [^\n]*\n", re.S)
    def rep(m):
        a, b = m.group(1), m.group(2)
        out = a
        al = a.split("\n")
        for line in b.split("\n"):
            if line and line not in al:
                out += line + "\n"
        return out
    s = pat.sub(rep, s)
    open(path, "w").write(s)
