// go2lean: a tiny Go -> Lean 4 translator for the pure decision functions of nbio (docs/go2lean.md).
//
//	go2lean -repo <nbio checkout> -spec funcs.json -out <lean/NbioVerif/Generated>
//
// For every package entry of the spec it parses the listed files (go/parser), type-checks them
// leniently (go/types; only the imports named in "real_imports" are resolved, from source; every other
// import is an empty stand-in and the resulting type errors are ignored) and writes
// Src_<Namespace>.lean with one `def` per listed function, plus — when "init" is set — the package's
// table variables (array composite literals) and its init() as a state transformer over them.
// Anything outside the supported subset makes the tool fail loudly (exit 1): that is a broken tie.
package main

import (
	"crypto/sha256"
	"encoding/json"
	"flag"
	"fmt"
	"go/ast"
	"go/constant"
	"go/importer"
	"go/parser"
	"go/token"
	"go/types"
	"os"
	"path/filepath"
	"sort"
	"strings"
)

type Effect struct {
	Call    string   `json:"call"`    // e.g. "syscall.EpollCtl"
	Observe []string `json:"observe"` // "1" = argument 1; "3.Events" = field Events of the &T{...} literal passed as argument 3
}

type PkgSpec struct {
	Dir         string   `json:"dir"`
	Namespace   string   `json:"namespace"`
	Files       []string `json:"files"`
	Funcs       []string `json:"funcs"`  // "name" or "Recv.name"
	Consts      []string `json:"consts"` // package-level constants to export
	Init        bool     `json:"init"`
	RealImports []string `json:"real_imports"`
	// calls of functions outside the package that become an extra function parameter of the translated
	// function (its meaning is then a hypothesis of the bridge lemma): Go name -> parameter name
	Externals map[string]string `json:"externals"`
	Effects   []Effect          `json:"effects"`
}

func die(pos token.Position, format string, a ...interface{}) {
	fmt.Fprintf(os.Stderr, "go2lean: %s: unsupported: %s\n", pos, fmt.Sprintf(format, a...))
	os.Exit(1)
}

type fakeImporter struct {
	real map[string]bool
	src  types.Importer
}

func (f fakeImporter) Import(path string) (*types.Package, error) {
	if f.real[path] {
		return f.src.Import(path)
	}
	p := types.NewPackage(path, filepath.Base(path))
	p.MarkComplete()
	return p, nil
}

type tr struct {
	fset    *token.FileSet
	info    *types.Info
	pkg     *types.Package
	spec    PkgSpec
	funcs   map[string]*ast.FuncDecl // key as in spec
	globals []*types.Var             // table variables, in source order
	gset    map[types.Object]bool
	// per function
	recv      types.Object
	recvFlds  []string          // field paths used, e.g. g_EpollMod
	recvTypes map[string]string // path -> Lean type
	effectful bool
	inInit    bool
	extParams []string // "(name : type)" of the external functions used
}

func (t *tr) pos(n ast.Node) token.Position { return t.fset.Position(n.Pos()) }

// rel: file:line relative to the package directory (so that the output does not depend on where the checkout lives)
func (t *tr) rel(p token.Pos) string {
	q := t.fset.Position(p)
	return fmt.Sprintf("%s:%d", filepath.Join(t.spec.Dir, filepath.Base(q.Filename)), q.Line)
}

func leanName(s string) string {
	switch s {
	case "end", "at", "from", "open", "by", "do", "then", "else", "fun", "let", "in", "show", "have", "match", "with", "instance", "def", "theorem", "where", "if":
		return s + "'"
	}
	return s
}

func (t *tr) typ(n ast.Node, ty types.Type) string {
	if ty == nil || ty == types.Typ[types.Invalid] {
		die(t.pos(n), "expression has no type (is the file that declares it listed under \"files\"?)")
	}
	switch u := ty.Underlying().(type) {
	case *types.Basic:
		switch u.Kind() {
		case types.Bool, types.UntypedBool:
			return "Bool"
		case types.Int, types.Int8, types.Int16, types.Int32, types.Int64, types.UntypedInt, types.UntypedRune:
			return "Int"
		case types.Uint8:
			return "UInt8"
		case types.Uint16:
			return "UInt16"
		case types.Uint32:
			return "UInt32"
		case types.Uint64:
			return "UInt64"
		case types.String, types.UntypedString:
			return "String"
		}
	case *types.Interface:
		if ty.String() == "error" {
			return "Option String"
		}
	case *types.Array:
		return "List " + t.typ(n, u.Elem())
	}
	die(t.pos(n), "type %s", ty)
	return ""
}

func isSigned(ty types.Type) bool {
	b, ok := ty.Underlying().(*types.Basic)
	return ok && b.Info()&types.IsInteger != 0 && b.Info()&types.IsUnsigned == 0
}

func isUnsigned(ty types.Type) bool {
	b, ok := ty.Underlying().(*types.Basic)
	return ok && b.Info()&types.IsUnsigned != 0
}

func width(ty types.Type) int64 {
	switch ty.Underlying().(*types.Basic).Kind() {
	case types.Uint8:
		return 8
	case types.Uint16:
		return 16
	case types.Uint32:
		return 32
	}
	return 64
}

// constant values (folded by go/types) become typed literals
func (t *tr) constLit(n ast.Node, tv types.TypeAndValue) string {
	ty := t.typ(n, tv.Type)
	switch tv.Value.Kind() {
	case constant.Bool:
		return fmt.Sprint(constant.BoolVal(tv.Value))
	case constant.String:
		return fmt.Sprintf("%q", constant.StringVal(tv.Value))
	case constant.Int:
		s := tv.Value.ExactString()
		if strings.HasPrefix(s, "-") {
			return fmt.Sprintf("(%s : %s)", s, ty)
		}
		return fmt.Sprintf("(%s : %s)", s, ty)
	}
	die(t.pos(n), "constant of kind %v", tv.Value.Kind())
	return ""
}

// recvPath: selector chain rooted at the receiver -> parameter name
func (t *tr) recvPath(e ast.Expr) (string, bool) {
	switch x := e.(type) {
	case *ast.Ident:
		if t.recv != nil && t.info.Uses[x] == t.recv {
			return "", true
		}
	case *ast.SelectorExpr:
		if p, ok := t.recvPath(x.X); ok {
			if p == "" {
				return x.Sel.Name, true
			}
			return p + "_" + x.Sel.Name, true
		}
	}
	return "", false
}

func (t *tr) expr(e ast.Expr) string {
	if tv, ok := t.info.Types[e]; ok && tv.Value != nil {
		return t.constLit(e, tv)
	}
	switch x := e.(type) {
	case *ast.ParenExpr:
		return "(" + t.expr(x.X) + ")"
	case *ast.Ident:
		if x.Name == "true" || x.Name == "false" {
			return x.Name
		}
		if x.Name == "nil" {
			return "none"
		}
		obj := t.info.Uses[x]
		if obj == nil {
			obj = t.info.Defs[x]
		}
		if v, ok := obj.(*types.Var); ok {
			if t.gset[v] {
				if t.inInit {
					return "g." + leanName(x.Name)
				}
				return "globals." + leanName(x.Name)
			}
			if v.Parent() != t.pkg.Scope() {
				return leanName(x.Name)
			}
		}
		die(t.pos(e), "identifier %s (not a parameter, local, constant or listed table)", x.Name)
	case *ast.SelectorExpr:
		if p, ok := t.recvPath(x); ok && p != "" {
			ty := t.typ(x, t.info.TypeOf(x))
			if _, seen := t.recvTypes[p]; !seen {
				t.recvFlds = append(t.recvFlds, p)
				t.recvTypes[p] = ty
			}
			return leanName(p)
		}
		die(t.pos(e), "selector %s", types.ExprString(e))
	case *ast.UnaryExpr:
		switch x.Op {
		case token.NOT:
			return "(!" + t.expr(x.X) + ")"
		case token.SUB:
			if isSigned(t.info.TypeOf(x.X)) {
				return "(-" + t.expr(x.X) + ")"
			}
		case token.XOR:
			if isUnsigned(t.info.TypeOf(x.X)) {
				return "(~~~" + t.expr(x.X) + ")"
			}
		}
		die(t.pos(e), "unary operator %s on %s", x.Op, t.info.TypeOf(x.X))
	case *ast.BinaryExpr:
		return t.binary(x)
	case *ast.IndexExpr:
		at, ok := t.info.TypeOf(x.X).Underlying().(*types.Array)
		if !ok {
			die(t.pos(e), "index into %s (only arrays)", t.info.TypeOf(x.X))
		}
		t.checkIndex(x, at)
		return fmt.Sprintf("(%s.getD %s %s)", t.expr(x.X), t.toNat(x.Index), zero(t.typ(x, at.Elem())))
	case *ast.CallExpr:
		return t.call(x)
	}
	die(t.pos(e), "expression %T", e)
	return ""
}

func zero(ty string) string {
	if ty == "Bool" {
		return "false"
	}
	return "0"
}

// an array index must be unable to go out of range: a uint8 into an array of >= 256 elements, or a rune
// taken from an ASCII string literal (checked where the string is ranged over)
func (t *tr) checkIndex(x *ast.IndexExpr, at *types.Array) {
	it := t.info.TypeOf(x.Index)
	if b, ok := it.Underlying().(*types.Basic); ok && (b.Kind() == types.Uint8 && at.Len() >= 256 || b.Kind() == types.Int32 || b.Kind() == types.UntypedRune) {
		return
	}
	if tv := t.info.Types[x.Index]; tv.Value != nil {
		if v, ok := constant.Int64Val(tv.Value); ok && v >= 0 && v < at.Len() {
			return
		}
	}
	die(t.pos(x), "array index of type %s may be out of range", it)
}

func (t *tr) toNat(e ast.Expr) string {
	ty := t.info.TypeOf(e)
	if isUnsigned(ty) {
		return "(" + t.expr(e) + ").toNat"
	}
	return "(" + t.expr(e) + ").toNat"
}

func (t *tr) binary(x *ast.BinaryExpr) string {
	a, b := t.expr(x.X), t.expr(x.Y)
	ty := t.info.TypeOf(x.X)
	lt := t.typ(x.X, ty)
	switch x.Op {
	case token.LAND:
		return fmt.Sprintf("(%s && %s)", a, b)
	case token.LOR:
		return fmt.Sprintf("(%s || %s)", a, b)
	case token.EQL:
		return fmt.Sprintf("(%s == %s)", a, b)
	case token.NEQ:
		return fmt.Sprintf("(%s != %s)", a, b)
	case token.LSS, token.LEQ, token.GTR, token.GEQ:
		if lt == "Bool" || lt == "String" {
			break
		}
		op := map[token.Token]string{token.LSS: "<", token.LEQ: "≤", token.GTR: ">", token.GEQ: "≥"}[x.Op]
		return fmt.Sprintf("(decide (%s %s %s))", a, op, b)
	case token.ADD, token.SUB, token.MUL:
		if lt == "Bool" || lt == "String" {
			break
		}
		return fmt.Sprintf("(%s %s %s)", a, x.Op, b) // Int: unbounded (assumption: no overflow); UIntN: wraps as in Go
	case token.AND, token.OR, token.XOR, token.AND_NOT:
		if !isUnsigned(ty) {
			break
		}
		op := map[token.Token]string{token.AND: "&&&", token.OR: "|||", token.XOR: "^^^"}[x.Op]
		if x.Op == token.AND_NOT {
			return fmt.Sprintf("(%s &&& ~~~%s)", a, b)
		}
		return fmt.Sprintf("(%s %s %s)", a, op, b)
	case token.SHL, token.SHR:
		tv := t.info.Types[x.Y]
		if tv.Value == nil {
			break
		}
		n, _ := constant.Int64Val(tv.Value)
		if isUnsigned(ty) && n >= 0 && n < width(ty) {
			op := "<<<"
			if x.Op == token.SHR {
				op = ">>>"
			}
			return fmt.Sprintf("(%s %s (%d : %s))", a, op, n, lt)
		}
		if isSigned(ty) && x.Op == token.SHL && n >= 0 && n < 62 {
			return fmt.Sprintf("(%s * (%d : Int))", a, int64(1)<<uint(n))
		}
	case token.QUO, token.REM:
		tv := t.info.Types[x.Y]
		if tv.Value == nil || constant.Sign(tv.Value) == 0 {
			break
		}
		if isUnsigned(ty) {
			return fmt.Sprintf("(%s %s %s)", a, x.Op, b)
		}
		if x.Op == token.QUO {
			return fmt.Sprintf("(Int.tdiv %s %s)", a, b)
		}
		return fmt.Sprintf("(Int.tmod %s %s)", a, b)
	}
	die(t.pos(x), "binary operator %s on %s", x.Op, ty)
	return ""
}

func (t *tr) call(x *ast.CallExpr) string {
	name := types.ExprString(x.Fun)
	// conversion T(e)
	if tv, ok := t.info.Types[x.Fun]; ok && tv.IsType() && len(x.Args) == 1 {
		from, to := t.info.TypeOf(x.Args[0]), tv.Type
		a := t.expr(x.Args[0])
		fl, tl := t.typ(x.Args[0], from), t.typ(x, to)
		switch {
		case fl == tl:
			return a
		case fl == "Int" && isUnsigned(to):
			return fmt.Sprintf("(Src.ofInt%d %s)", width(to), a) // two's complement truncation, as in Go
		case isUnsigned(from) && tl == "Int":
			if bk := to.Underlying().(*types.Basic).Kind(); bk == types.Int || bk == types.Int64 || (bk == types.Int32 && width(from) < 32) {
				return fmt.Sprintf("(Int.ofNat (%s).toNat)", a)
			}
		case isUnsigned(from) && isUnsigned(to) && width(from) <= width(to):
			return fmt.Sprintf("(%s).to%s", a, tl)
		}
		die(t.pos(x), "conversion %s -> %s", from, to)
	}
	if name == "fmt.Errorf" || name == "errors.New" {
		return "(some " + t.errName(x) + ")"
	}
	if pn, ok := t.spec.Externals[name]; ok {
		var args, ats []string
		for _, a := range x.Args {
			args = append(args, t.expr(a))
			ats = append(ats, t.typ(a, t.info.TypeOf(a)))
		}
		var rts []string
		switch rt := t.info.TypeOf(x).(type) {
		case *types.Tuple:
			for i := 0; i < rt.Len(); i++ {
				rts = append(rts, t.typ(x, rt.At(i).Type()))
			}
		default:
			rts = append(rts, t.typ(x, rt))
		}
		decl := fmt.Sprintf("(%s : %s → %s)", pn, strings.Join(ats, " → "), strings.Join(rts, " × "))
		seen := false
		for _, d := range t.extParams {
			seen = seen || d == decl
		}
		if !seen {
			t.extParams = append(t.extParams, decl)
		}
		return "(" + pn + " " + strings.Join(args, " ") + ")"
	}
	// call of another listed function / method on the same receiver
	key := name
	var extra []string
	if sel, ok := x.Fun.(*ast.SelectorExpr); ok {
		if p, isRecv := t.recvPath(sel.X); isRecv && p == "" {
			rt := t.recv.Type()
			if pt, ok := rt.(*types.Pointer); ok {
				rt = pt.Elem()
			}
			key = rt.(*types.Named).Obj().Name() + "." + sel.Sel.Name
		}
	}
	if fd, ok := t.funcs[key]; ok {
		callee := &tr{fset: t.fset, info: t.info, pkg: t.pkg, spec: t.spec, funcs: t.funcs, globals: t.globals, gset: t.gset}
		sig := callee.signature(fd) // to learn which receiver fields the callee takes
		for _, f := range sig.recvFlds {
			if _, seen := t.recvTypes[f]; !seen {
				t.recvFlds = append(t.recvFlds, f)
				t.recvTypes[f] = sig.recvTypes[f]
			}
			extra = append(extra, leanName(f))
		}
		if sig.effectful {
			t.effectful = true
		}
		var args []string
		for _, a := range x.Args {
			args = append(args, t.expr(a))
		}
		return "(" + strings.Join(append(append([]string{leanName(fd.Name.Name)}, extra...), args...), " ") + ")"
	}
	die(t.pos(x), "call of %s (not a listed function, conversion or fmt.Errorf)", name)
	return ""
}

// errName: the identity of an error value: the Err* variable it is or wraps, else its message
func (t *tr) errName(e ast.Expr) string {
	switch x := e.(type) {
	case *ast.Ident:
		return fmt.Sprintf("%q", x.Name)
	case *ast.CallExpr:
		for _, a := range x.Args[1:] {
			if id, ok := a.(*ast.Ident); ok && strings.HasPrefix(id.Name, "Err") {
				return fmt.Sprintf("%q", id.Name)
			}
		}
		if lit, ok := x.Args[0].(*ast.BasicLit); ok {
			return lit.Value
		}
	}
	die(t.pos(e), "error value %s", types.ExprString(e))
	return ""
}

type sigInfo struct {
	recvFlds  []string
	recvTypes map[string]string
	effectful bool
	body      string
}

// effect: `syscall.EpollCtl(...)` as a value: the tuple of the observed arguments
func (t *tr) effect(x *ast.CallExpr) (string, bool) {
	for _, ef := range t.spec.Effects {
		if types.ExprString(x.Fun) != ef.Call {
			continue
		}
		var parts, tys []string
		for _, ob := range ef.Observe {
			idx, field := ob, ""
			if i := strings.IndexByte(ob, '.'); i >= 0 {
				idx, field = ob[:i], ob[i+1:]
			}
			var n int
			fmt.Sscan(idx, &n)
			arg := x.Args[n]
			if field != "" {
				u, ok := arg.(*ast.UnaryExpr)
				lit, ok2 := (ast.Expr)(nil), false
				if ok && u.Op == token.AND {
					lit, ok2 = u.X.(*ast.CompositeLit)
				}
				if !ok2 {
					die(t.pos(arg), "effect argument must be &T{...}")
				}
				found := false
				for _, el := range lit.(*ast.CompositeLit).Elts {
					kv := el.(*ast.KeyValueExpr)
					if kv.Key.(*ast.Ident).Name == field {
						parts = append(parts, t.expr(kv.Value))
						tys = append(tys, t.typ(kv.Value, t.info.TypeOf(kv.Value)))
						found = true
					}
				}
				if !found {
					die(t.pos(arg), "field %s not set in the literal", field)
				}
			} else {
				parts = append(parts, t.expr(arg))
				tys = append(tys, t.typ(arg, t.info.TypeOf(arg)))
			}
		}
		effTypes = tys
		t.effectful = true
		return "(some (" + strings.Join(parts, ", ") + "))", true
	}
	return "", false
}

func (t *tr) retExpr(results []ast.Expr, resTypes *types.Tuple) string {
	var parts []string
	for i, r := range results {
		isErr := resTypes.At(i).Type().String() == "error"
		if id, ok := r.(*ast.Ident); ok && id.Name == "nil" {
			parts = append(parts, "none")
			continue
		}
		if isErr {
			if c, ok := r.(*ast.CallExpr); ok {
				if s, ok := t.effect(c); ok {
					parts = append(parts, s)
					continue
				}
				if n := types.ExprString(c.Fun); n == "fmt.Errorf" || n == "errors.New" {
					parts = append(parts, "(some "+t.errName(c)+")")
					continue
				}
				parts = append(parts, t.call(c))
				continue
			}
			if id, ok := r.(*ast.Ident); ok { // a package-level error variable (possibly declared in an unlisted file)
				if obj := t.info.Uses[id]; obj == nil || obj.Parent() == t.pkg.Scope() {
					parts = append(parts, "(some "+t.errName(id)+")")
					continue
				}
			}
		}
		parts = append(parts, t.expr(r))
	}
	if len(parts) == 1 {
		return parts[0]
	}
	return "(" + strings.Join(parts, ", ") + ")"
}

func terminates(list []ast.Stmt) bool {
	if len(list) == 0 {
		return false
	}
	switch x := list[len(list)-1].(type) {
	case *ast.ReturnStmt:
		return true
	case *ast.IfStmt:
		if x.Else == nil {
			return false
		}
		eb, ok := x.Else.(*ast.BlockStmt)
		if !ok {
			return terminates(x.Body.List) && terminates([]ast.Stmt{x.Else})
		}
		return terminates(x.Body.List) && terminates(eb.List)
	case *ast.BlockStmt:
		return terminates(x.List)
	case *ast.SwitchStmt:
		hasDefault := false
		for _, c := range x.Body.List {
			cc := c.(*ast.CaseClause)
			if cc.List == nil {
				hasDefault = true
			}
			if !terminates(cc.Body) {
				return false
			}
		}
		return hasDefault
	}
	return false
}

// stmts of a pure function as one Lean expression; statements after a non-terminating branch are
// duplicated into the branches
func (t *tr) stmts(list []ast.Stmt, res *types.Tuple, ind string) string {
	if len(list) == 0 {
		die(token.Position{}, "control reaches the end of a function without return")
	}
	s, rest := list[0], list[1:]
	switch x := s.(type) {
	case *ast.ReturnStmt:
		return t.retExpr(x.Results, res)
	case *ast.BlockStmt:
		return t.stmts(append(append([]ast.Stmt{}, x.List...), rest...), res, ind)
	case *ast.AssignStmt:
		if len(x.Lhs) == 1 && len(x.Rhs) == 1 && (x.Tok == token.DEFINE || x.Tok == token.ASSIGN) {
			if id, ok := x.Lhs[0].(*ast.Ident); ok {
				ty := t.typ(x, t.info.TypeOf(x.Lhs[0]))
				return fmt.Sprintf("let %s : %s := %s\n%s%s", leanName(id.Name), ty, t.expr(x.Rhs[0]), ind, t.stmts(rest, res, ind))
			}
		}
		if len(x.Lhs) == 2 && len(x.Rhs) == 1 && x.Tok == token.DEFINE { // v, err := f(...)
			if c, ok := x.Rhs[0].(*ast.CallExpr); ok {
				a, b := x.Lhs[0].(*ast.Ident), x.Lhs[1].(*ast.Ident)
				return fmt.Sprintf("let (%s, %s) := %s\n%s%s", leanName(a.Name), leanName(b.Name), t.call(c), ind, t.stmts(rest, res, ind))
			}
		}
	case *ast.DeclStmt:
		gd := x.Decl.(*ast.GenDecl)
		if gd.Tok == token.CONST {
			return t.stmts(rest, res, ind)
		}
		if gd.Tok == token.VAR && len(gd.Specs) == 1 {
			vs := gd.Specs[0].(*ast.ValueSpec)
			if len(vs.Names) == 1 && len(vs.Values) == 1 {
				ty := t.typ(x, t.info.TypeOf(vs.Names[0]))
				return fmt.Sprintf("let %s : %s := %s\n%s%s", leanName(vs.Names[0].Name), ty, t.expr(vs.Values[0]), ind, t.stmts(rest, res, ind))
			}
		}
	case *ast.IfStmt:
		if x.Init != nil {
			break
		}
		thenL := x.Body.List
		var elseL []ast.Stmt
		if x.Else != nil {
			if eb, ok := x.Else.(*ast.BlockStmt); ok {
				elseL = eb.List
			} else {
				elseL = []ast.Stmt{x.Else}
			}
		}
		if !terminates(thenL) {
			thenL = append(append([]ast.Stmt{}, thenL...), rest...)
		}
		if !terminates(elseL) {
			elseL = append(append([]ast.Stmt{}, elseL...), rest...)
		}
		return fmt.Sprintf("if %s then\n%s  %s\n%selse\n%s  %s", t.cond(x.Cond), ind, t.stmts(thenL, res, ind+"  "), ind, ind, t.stmts(elseL, res, ind+"  "))
	case *ast.SwitchStmt:
		if x.Init != nil {
			break
		}
		var deflt []ast.Stmt
		hasDefault := false
		type arm struct {
			cond string
			body []ast.Stmt
		}
		var arms []arm
		for _, c := range x.Body.List {
			cc := c.(*ast.CaseClause)
			for _, b := range cc.Body {
				if br, ok := b.(*ast.BranchStmt); ok {
					die(t.pos(br), "%s inside switch", br.Tok)
				}
			}
			if cc.List == nil {
				deflt, hasDefault = cc.Body, true
				continue
			}
			var cs []string
			for _, v := range cc.List {
				if x.Tag != nil {
					cs = append(cs, fmt.Sprintf("(%s == %s)", t.expr(x.Tag), t.expr(v)))
				} else {
					cs = append(cs, t.expr(v))
				}
			}
			arms = append(arms, arm{strings.Join(cs, " || "), cc.Body})
		}
		_ = hasDefault
		tail := deflt
		if !terminates(tail) {
			tail = append(append([]ast.Stmt{}, tail...), rest...)
		}
		out := t.stmts(tail, res, ind+"  ")
		for i := len(arms) - 1; i >= 0; i-- {
			b := arms[i].body
			if !terminates(b) {
				b = append(append([]ast.Stmt{}, b...), rest...)
			}
			out = fmt.Sprintf("if %s then\n%s  %s\n%selse\n%s  %s", arms[i].cond, ind, t.stmts(b, res, ind+"  "), ind, ind, out)
		}
		return out
	}
	die(t.pos(s), "statement %T", s)
	return ""
}

func (t *tr) cond(e ast.Expr) string { return t.expr(e) }

func (t *tr) signature(fd *ast.FuncDecl) sigInfo {
	t.recv, t.recvFlds, t.recvTypes, t.effectful, t.extParams = nil, nil, map[string]string{}, false, nil
	if fd.Recv != nil && len(fd.Recv.List) == 1 && len(fd.Recv.List[0].Names) == 1 {
		t.recv = t.info.Defs[fd.Recv.List[0].Names[0]]
	}
	sig := t.info.Defs[fd.Name].Type().(*types.Signature)
	body := t.stmts(fd.Body.List, sig.Results(), "  ")
	return sigInfo{t.recvFlds, t.recvTypes, t.effectful, body}
}

func (t *tr) function(key string, fd *ast.FuncDecl, w *strings.Builder) {
	si := t.signature(fd)
	sig := t.info.Defs[fd.Name].Type().(*types.Signature)
	params := append([]string{}, t.extParams...)
	for _, f := range si.recvFlds {
		params = append(params, fmt.Sprintf("(%s : %s)", leanName(f), si.recvTypes[f]))
	}
	for i := 0; i < sig.Params().Len(); i++ {
		p := sig.Params().At(i)
		params = append(params, fmt.Sprintf("(%s : %s)", leanName(p.Name()), t.typ(fd, p.Type())))
	}
	var rs []string
	for i := 0; i < sig.Results().Len(); i++ {
		rt := t.typ(fd, sig.Results().At(i).Type())
		if si.effectful && sig.Results().At(i).Type().String() == "error" {
			rt = "Option (" + strings.Join(t.effectTypes(), " × ") + ")"
		}
		rs = append(rs, rt)
	}
	fmt.Fprintf(w, "/-- `%s` (%s) -/\ndef %s %s : %s :=\n  %s\n\n", key, t.rel(fd.Pos()), leanName(fd.Name.Name), strings.Join(params, " "), strings.Join(rs, " × "), si.body)
}

// types of the observed values of the (single) effect of the package, learnt at its first translation
var effTypes []string

func (t *tr) effectTypes() []string {
	if effTypes == nil {
		die(token.Position{}, "effect result type unknown (callee not translated first)")
	}
	return effTypes
}

// ---- init(): a state transformer over the table variables

func (t *tr) initStmts(list []ast.Stmt, ind string) string {
	var b strings.Builder
	for _, s := range list {
		switch x := s.(type) {
		case *ast.AssignStmt:
			if len(x.Lhs) == 1 && len(x.Rhs) == 1 && x.Tok == token.ASSIGN {
				if ix, ok := x.Lhs[0].(*ast.IndexExpr); ok {
					if id, ok := ix.X.(*ast.Ident); ok {
						if v, ok := t.info.Uses[id].(*types.Var); ok && t.gset[v] {
							t.checkIndex(ix, v.Type().Underlying().(*types.Array))
							fmt.Fprintf(&b, "%slet g := { g with %s := g.%s.set %s %s }\n", ind, leanName(id.Name), leanName(id.Name), t.toNat(ix.Index), t.expr(x.Rhs[0]))
							continue
						}
					}
				}
			}
			die(t.pos(s), "assignment in init (only table[i] = v)")
		case *ast.DeclStmt:
			gd := x.Decl.(*ast.GenDecl)
			vs := gd.Specs[0].(*ast.ValueSpec)
			if gd.Tok == token.VAR && len(gd.Specs) == 1 && len(vs.Names) == 1 && len(vs.Values) == 1 {
				fmt.Fprintf(&b, "%slet %s : %s := %s\n", ind, leanName(vs.Names[0].Name), t.typ(x, t.info.TypeOf(vs.Names[0])), t.expr(vs.Values[0]))
				continue
			}
			die(t.pos(s), "declaration in init")
		case *ast.ForStmt:
			fmt.Fprintf(&b, "%s", t.forStmt(x, ind))
		case *ast.RangeStmt:
			fmt.Fprintf(&b, "%s", t.rangeStmt(x, ind))
		default:
			die(t.pos(s), "statement %T in init", s)
		}
	}
	return b.String()
}

// for i := C0; i < C1 (or <=); i++ { ... } with constant bounds within the variable's type
func (t *tr) forStmt(x *ast.ForStmt, ind string) string {
	as, ok := x.Init.(*ast.AssignStmt)
	cond, ok2 := x.Cond.(*ast.BinaryExpr)
	post, ok3 := x.Post.(*ast.IncDecStmt)
	if !ok || !ok2 || !ok3 || as.Tok != token.DEFINE || len(as.Lhs) != 1 || post.Tok != token.INC {
		die(t.pos(x), "for loop (only `for i := C0; i < C1; i++`)")
	}
	v := as.Lhs[0].(*ast.Ident)
	lo, hi := t.info.Types[as.Rhs[0]], t.info.Types[cond.Y]
	if lo.Value == nil || hi.Value == nil || types.ExprString(cond.X) != v.Name || types.ExprString(post.X) != v.Name {
		die(t.pos(x), "for loop bounds must be constants and the condition must test the loop variable")
	}
	l, _ := constant.Int64Val(lo.Value)
	h, _ := constant.Int64Val(hi.Value)
	switch cond.Op {
	case token.LSS:
	case token.LEQ:
		h++
	default:
		die(t.pos(x), "for loop condition %s", cond.Op)
	}
	vt := t.info.TypeOf(v)
	if isUnsigned(vt) && h > (int64(1)<<uint(width(vt)))-0 && width(vt) < 64 {
		die(t.pos(x), "loop bound exceeds the range of %s (the Go loop would not terminate)", vt)
	}
	if isUnsigned(vt) && cond.Op == token.LEQ && h-1 == (int64(1)<<uint(width(vt)))-1 {
		die(t.pos(x), "loop `<=` at the maximum of %s does not terminate in Go", vt)
	}
	lt := t.typ(x, vt)
	conv := "Int.ofNat n"
	if isUnsigned(vt) {
		conv = lt + ".ofNat n"
	}
	return fmt.Sprintf("%slet g := Src.forRange %d %d g fun n g =>\n%s  let %s : %s := %s\n%s%s  g\n", ind, l, h, ind, leanName(v.Name), lt, conv, t.initStmts(x.Body.List, ind+"  "), ind)
}

// for k := range <map table with constant string keys>   /   for _, c := range <string variable>
func (t *tr) rangeStmt(x *ast.RangeStmt, ind string) string {
	xt := t.info.TypeOf(x.X)
	if _, isMap := xt.Underlying().(*types.Map); isMap && x.Value == nil {
		keys := t.mapKeys(x.X)
		k := x.Key.(*ast.Ident)
		var qs []string
		for _, s := range keys {
			qs = append(qs, fmt.Sprintf("%q", s))
		}
		return fmt.Sprintf("%slet g := Src.forList [%s] g fun (%s : String) g =>\n%s%s  g\n", ind, strings.Join(qs, ", "), leanName(k.Name), t.initStmts(x.Body.List, ind+"  "), ind)
	}
	if b, ok := xt.Underlying().(*types.Basic); ok && b.Kind() == types.String && x.Value != nil {
		if id, ok := x.Key.(*ast.Ident); !ok || id.Name != "_" {
			die(t.pos(x), "range over string with an index variable")
		}
		c := x.Value.(*ast.Ident)
		return fmt.Sprintf("%slet g := Src.forRunes %s g fun (%s : Int) g =>\n%s%s  g\n", ind, t.expr(x.X), leanName(c.Name), t.initStmts(x.Body.List, ind+"  "), ind)
	}
	die(t.pos(x), "range over %s", xt)
	return ""
}

func (t *tr) mapKeys(e ast.Expr) []string {
	id, ok := e.(*ast.Ident)
	if !ok {
		die(t.pos(e), "range over a map expression")
	}
	obj := t.info.Uses[id]
	var keys []string
	for _, f := range t.files() {
		ast.Inspect(f, func(n ast.Node) bool {
			vs, ok := n.(*ast.ValueSpec)
			if !ok {
				return true
			}
			for i, nm := range vs.Names {
				if t.info.Defs[nm] == obj && i < len(vs.Values) {
					lit, ok := vs.Values[i].(*ast.CompositeLit)
					if !ok {
						die(t.pos(vs), "map %s is not a composite literal", id.Name)
					}
					for _, el := range lit.Elts {
						kv := el.(*ast.KeyValueExpr)
						tv := t.info.Types[kv.Key]
						if tv.Value == nil || tv.Value.Kind() != constant.String {
							die(t.pos(kv), "map key is not a constant string")
						}
						s := constant.StringVal(tv.Value)
						for _, r := range s {
							if r >= 128 {
								die(t.pos(kv), "non-ASCII map key")
							}
						}
						keys = append(keys, s)
					}
				}
			}
			return true
		})
	}
	return keys
}

var parsed []*ast.File

func (t *tr) files() []*ast.File { return parsed }

// a table variable: an array with a (possibly keyed) composite literal of constants
func (t *tr) tableLit(v *types.Var, vs *ast.ValueSpec, i int) string {
	at := v.Type().Underlying().(*types.Array)
	et := t.typ(vs, at.Elem())
	var pairs []string
	if i < len(vs.Values) {
		lit, ok := vs.Values[i].(*ast.CompositeLit)
		if !ok {
			die(t.pos(vs), "table %s is not a composite literal", v.Name())
		}
		next := int64(0)
		for _, el := range lit.Elts {
			val := el
			if kv, ok := el.(*ast.KeyValueExpr); ok {
				tv := t.info.Types[kv.Key]
				if tv.Value == nil {
					die(t.pos(kv), "table index is not constant")
				}
				next, _ = constant.Int64Val(tv.Value)
				val = kv.Value
			}
			pairs = append(pairs, fmt.Sprintf("(%d, %s)", next, t.expr(val)))
			next++
		}
	}
	return fmt.Sprintf("Src.mkTable %d %s [%s]", at.Len(), zero(et), strings.Join(pairs, ", "))
}

func main() {
	repo := flag.String("repo", "/repo", "")
	specPath := flag.String("spec", "funcs.json", "")
	out := flag.String("out", ".", "")
	flag.Parse()
	raw, err := os.ReadFile(*specPath)
	if err != nil {
		fmt.Fprintln(os.Stderr, err)
		os.Exit(1)
	}
	var specs []PkgSpec
	if err := json.Unmarshal(raw, &specs); err != nil {
		fmt.Fprintln(os.Stderr, "go2lean: spec:", err)
		os.Exit(1)
	}
	self, _ := os.ReadFile(os.Args[0])
	for _, sp := range specs {
		fset := token.NewFileSet()
		h := sha256.New()
		h.Write(raw)
		parsed = nil
		effTypes = nil
		for _, fn := range sp.Files {
			p := filepath.Join(*repo, sp.Dir, fn)
			src, err := os.ReadFile(p)
			if err != nil {
				fmt.Fprintln(os.Stderr, "go2lean:", err)
				os.Exit(1)
			}
			h.Write(src)
			f, err := parser.ParseFile(fset, p, src, 0)
			if err != nil {
				fmt.Fprintln(os.Stderr, "go2lean:", err)
				os.Exit(1)
			}
			parsed = append(parsed, f)
		}
		_ = self
		real := map[string]bool{}
		for _, r := range sp.RealImports {
			real[r] = true
		}
		info := &types.Info{Types: map[ast.Expr]types.TypeAndValue{}, Defs: map[*ast.Ident]types.Object{}, Uses: map[*ast.Ident]types.Object{}}
		conf := types.Config{Importer: fakeImporter{real, importer.ForCompiler(fset, "source", nil)}, Error: func(error) {}, DisableUnusedImportCheck: true}
		pkg, _ := conf.Check(sp.Dir, fset, parsed, info)
		t := &tr{fset: fset, info: info, pkg: pkg, spec: sp, funcs: map[string]*ast.FuncDecl{}, gset: map[types.Object]bool{}}
		var initFn *ast.FuncDecl
		want := map[string]bool{}
		for _, f := range sp.Funcs {
			want[f] = true
		}
		for _, f := range parsed {
			for _, d := range f.Decls {
				fd, ok := d.(*ast.FuncDecl)
				if !ok || fd.Body == nil {
					continue
				}
				key := fd.Name.Name
				if fd.Recv != nil && len(fd.Recv.List) == 1 {
					rt := fd.Recv.List[0].Type
					if st, ok := rt.(*ast.StarExpr); ok {
						rt = st.X
					}
					key = types.ExprString(rt) + "." + key
				}
				if want[key] {
					t.funcs[key] = fd
				}
				if key == "init" && sp.Init {
					initFn = fd
				}
			}
		}
		for _, f := range sp.Funcs {
			if t.funcs[f] == nil {
				fmt.Fprintf(os.Stderr, "go2lean: function %s not found in %s\n", f, sp.Dir)
				os.Exit(1)
			}
		}
		var w strings.Builder
		fmt.Fprintf(&w, "import NbioVerif.SrcPrelude\nset_option linter.unusedVariables false\n/-! GENERATED by tools/go2lean from %s/{%s} of the nbio working tree — do not edit.\n    source-sha256: %x -/\nnamespace Src.%s\n\n", sp.Dir, strings.Join(sp.Files, ","), h.Sum(nil), sp.Namespace)
		// constants
		for _, c := range sp.Consts {
			obj, ok := pkg.Scope().Lookup(c).(*types.Const)
			if !ok {
				fmt.Fprintf(os.Stderr, "go2lean: constant %s not found in %s\n", c, sp.Dir)
				os.Exit(1)
			}
			ty := t.typ(parsed[0], obj.Type())
			fmt.Fprintf(&w, "/-- constant `%s` -/\ndef %s : %s := %s\n\n", c, leanName(c), ty, obj.Val().ExactString())
		}
		// tables + init
		if sp.Init {
			if initFn == nil {
				fmt.Fprintf(os.Stderr, "go2lean: no init() in %s\n", sp.Dir)
				os.Exit(1)
			}
			var fields, lits []string
			for _, f := range parsed {
				for _, d := range f.Decls {
					gd, ok := d.(*ast.GenDecl)
					if !ok || gd.Tok != token.VAR {
						continue
					}
					for _, s := range gd.Specs {
						vs := s.(*ast.ValueSpec)
						for i, nm := range vs.Names {
							v, _ := info.Defs[nm].(*types.Var)
							if v == nil {
								continue
							}
							if _, isArr := v.Type().Underlying().(*types.Array); !isArr {
								continue
							}
							t.globals = append(t.globals, v)
							t.gset[v] = true
							fields = append(fields, fmt.Sprintf("  %s : %s", leanName(v.Name()), t.typ(vs, v.Type())))
							lits = append(lits, fmt.Sprintf("  %s := %s", leanName(v.Name()), t.tableLit(v, vs, i)))
						}
					}
				}
			}
			fmt.Fprintf(&w, "/-- the package's table variables -/\nstructure Globals where\n%s\n\n/-- their composite literals -/\ndef globals0 : Globals where\n%s\n\n", strings.Join(fields, "\n"), strings.Join(lits, "\n"))
			t.inInit = true
			fmt.Fprintf(&w, "/-- `init()` (%s) -/\ndef init (g : Globals) : Globals :=\n%s  g\n\n/-- the tables as the functions below see them: after init() -/\ndef globals : Globals := init globals0\n\n", t.rel(initFn.Pos()), t.initStmts(initFn.Body.List, "  "))
			t.inInit = false
		}
		// functions, callees first
		var keys []string
		for k := range t.funcs {
			keys = append(keys, k)
		}
		sort.Slice(keys, func(i, j int) bool { return t.funcs[keys[i]].Pos() < t.funcs[keys[j]].Pos() })
		emitted := map[string]bool{}
		var emit func(k string)
		emit = func(k string) {
			if emitted[k] {
				return
			}
			emitted[k] = true
			ast.Inspect(t.funcs[k].Body, func(n ast.Node) bool { // dependencies first
				if c, ok := n.(*ast.CallExpr); ok {
					name := types.ExprString(c.Fun)
					if i := strings.LastIndexByte(name, '.'); i >= 0 {
						for kk := range t.funcs {
							if strings.HasSuffix(kk, name[i:]) && kk != k {
								emit(kk)
							}
						}
					} else if _, ok := t.funcs[name]; ok && name != k {
						emit(name)
					}
				}
				return true
			})
			t.function(k, t.funcs[k], &w)
		}
		for _, k := range keys {
			emit(k)
		}
		fmt.Fprintf(&w, "end Src.%s\n", sp.Namespace)
		path := filepath.Join(*out, "Src_"+sp.Namespace+".lean")
		old, _ := os.ReadFile(path)
		if string(old) != w.String() {
			if err := os.WriteFile(path, []byte(w.String()), 0644); err != nil {
				fmt.Fprintln(os.Stderr, err)
				os.Exit(1)
			}
			fmt.Println("written", path)
		} else {
			fmt.Println("unchanged", path)
		}
	}
}
