module go2lean
go 1.21
