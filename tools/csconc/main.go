// csconc: critical-section facts for the concurrency family (DESIGN §2.4c).
//
//	csconc <file.go> <Func | Recv.Func>
//
// walks the function with go/ast and prints one event per line, in source order, with the set of
// mutexes held at that point (flow sensitive for if/for/switch/select; a branch that ends in
// return/continue/break/panic does not contribute to the state after the statement):
//
//	lock <expr> | unlock <expr> | defer-unlock <expr>
//	sel <x.f>            every selector x.f (x an identifier): field reads and writes
//	call <text>          every call (arguments included, whitespace removed)
//	go | lit-begin | lit-end    goroutine start / function literal body (walked with nothing held)
//	warn <text>          a loop body or branch changes the lock state in a way the walker cannot merge
//
// Each line ends with  held=<comma list>  depth=<function literal nesting>.
// The predicates over this stream live in vlib/cs_conc.py.
package main

import (
	"bytes"
	"fmt"
	"go/ast"
	"go/parser"
	"go/printer"
	"go/token"
	"os"
	"sort"
	"strings"
)

var fset = token.NewFileSet()

func text(n ast.Node) string {
	var b bytes.Buffer
	printer.Fprint(&b, fset, n)
	return strings.Join(strings.Fields(b.String()), "")
}

type state map[string]bool

func (s state) copy() state {
	c := state{}
	for k, v := range s {
		if v {
			c[k] = true
		}
	}
	return c
}

func (s state) String() string {
	var ks []string
	for k, v := range s {
		if v {
			ks = append(ks, k)
		}
	}
	sort.Strings(ks)
	return strings.Join(ks, ",")
}

func equal(a, b state) bool { return a.String() == b.String() }

type walker struct{ depth int }

func (w *walker) emit(s state, format string, a ...interface{}) {
	fmt.Printf("%s held=%s depth=%d\n", fmt.Sprintf(format, a...), s.String(), w.depth)
}

// expr emits the events of an expression (selectors, calls, literals), left to right.
func (w *walker) expr(s state, e ast.Node) {
	if e == nil {
		return
	}
	ast.Inspect(e, func(n ast.Node) bool {
		switch x := n.(type) {
		case *ast.FuncLit:
			w.emit(s, "lit-begin")
			w.depth++
			w.block(state{}, x.Body.List)
			w.depth--
			w.emit(s, "lit-end")
			return false
		case *ast.CallExpr:
			if sel, ok := x.Fun.(*ast.SelectorExpr); ok && (sel.Sel.Name == "Lock" || sel.Sel.Name == "Unlock" || sel.Sel.Name == "RLock" || sel.Sel.Name == "RUnlock") && len(x.Args) == 0 {
				m := text(sel.X)
				if strings.HasSuffix(sel.Sel.Name, "Unlock") {
					w.emit(s, "unlock %s", m)
					s[m] = false
				} else {
					s[m] = true
					w.emit(s, "lock %s", m)
				}
				return false
			}
			if lit, ok := x.Fun.(*ast.FuncLit); ok {
				// immediately invoked literal: runs here, with what is held here
				w.emit(s, "call func-literal()")
				w.block(s, lit.Body.List)
				for _, a := range x.Args {
					w.expr(s, a)
				}
				return false
			}
			w.emit(s, "call %s", callText(x))
			return true
		case *ast.SelectorExpr:
			if id, ok := x.X.(*ast.Ident); ok {
				w.emit(s, "sel %s.%s", id.Name, x.Sel.Name)
			}
			return true
		}
		return true
	})
}

func callText(c *ast.CallExpr) string {
	var args []string
	for _, a := range c.Args {
		if _, ok := a.(*ast.FuncLit); ok {
			args = append(args, "func")
		} else {
			args = append(args, text(a))
		}
	}
	return text(c.Fun) + "(" + strings.Join(args, ",") + ")"
}

func terminates(list []ast.Stmt) bool {
	if len(list) == 0 {
		return false
	}
	switch x := list[len(list)-1].(type) {
	case *ast.ReturnStmt:
		return true
	case *ast.BranchStmt:
		return x.Tok == token.BREAK || x.Tok == token.CONTINUE || x.Tok == token.GOTO
	case *ast.ExprStmt:
		if c, ok := x.X.(*ast.CallExpr); ok {
			if id, ok := c.Fun.(*ast.Ident); ok && id.Name == "panic" {
				return true
			}
		}
	case *ast.BlockStmt:
		return terminates(x.List)
	}
	return false
}

// block walks statements sequentially, mutating s.
func (w *walker) block(s state, list []ast.Stmt) {
	for _, st := range list {
		w.stmt(s, st)
	}
}

func (w *walker) merge(s state, branches []state, what string) {
	if len(branches) == 0 {
		return
	}
	for _, b := range branches[1:] {
		if !equal(b, branches[0]) {
			w.emit(s, "warn branches of %s end with different lock states (%s / %s)", what, branches[0], b)
		}
	}
	for k := range s {
		delete(s, k)
	}
	for k, v := range branches[0] {
		s[k] = v
	}
}

func (w *walker) stmt(s state, st ast.Stmt) {
	switch x := st.(type) {
	case *ast.BlockStmt:
		w.block(s, x.List)
	case *ast.IfStmt:
		if x.Init != nil {
			w.stmt(s, x.Init)
		}
		w.expr(s, x.Cond)
		var ends []state
		b := s.copy()
		w.block(b, x.Body.List)
		if !terminates(x.Body.List) {
			ends = append(ends, b)
		}
		if x.Else != nil {
			e := s.copy()
			w.stmt(e, x.Else)
			var el []ast.Stmt
			if blk, ok := x.Else.(*ast.BlockStmt); ok {
				el = blk.List
			}
			if !terminates(el) {
				ends = append(ends, e)
			}
		} else {
			ends = append(ends, s.copy())
		}
		w.merge(s, ends, "if")
	case *ast.ForStmt:
		if x.Init != nil {
			w.stmt(s, x.Init)
		}
		w.expr(s, x.Cond)
		b := s.copy()
		w.block(b, x.Body.List)
		if x.Post != nil {
			w.stmt(b, x.Post)
		}
		if !terminates(x.Body.List) && !equal(b, s) {
			w.emit(s, "warn loop body changes the lock state (%s -> %s)", s, b)
		}
	case *ast.RangeStmt:
		w.expr(s, x.X)
		b := s.copy()
		w.block(b, x.Body.List)
		if !terminates(x.Body.List) && !equal(b, s) {
			w.emit(s, "warn loop body changes the lock state (%s -> %s)", s, b)
		}
	case *ast.SwitchStmt, *ast.TypeSwitchStmt, *ast.SelectStmt:
		var body *ast.BlockStmt
		switch y := x.(type) {
		case *ast.SwitchStmt:
			if y.Init != nil {
				w.stmt(s, y.Init)
			}
			w.expr(s, y.Tag)
			body = y.Body
		case *ast.TypeSwitchStmt:
			body = y.Body
		case *ast.SelectStmt:
			body = y.Body
		}
		var ends []state
		hasDefault := false
		for _, c := range body.List {
			b := s.copy()
			var list []ast.Stmt
			switch cc := c.(type) {
			case *ast.CaseClause:
				for _, e := range cc.List {
					w.expr(b, e)
				}
				if cc.List == nil {
					hasDefault = true
				}
				list = cc.Body
			case *ast.CommClause:
				if cc.Comm != nil {
					w.emit(b, "comm %s", text(cc.Comm))
					w.stmt(b, cc.Comm)
				} else {
					hasDefault = true
					w.emit(b, "comm default")
				}
				list = cc.Body
			}
			w.block(b, list)
			if !terminates(list) {
				ends = append(ends, b)
			}
		}
		if _, isSel := x.(*ast.SelectStmt); !hasDefault && !isSel {
			ends = append(ends, s.copy())
		}
		w.merge(s, ends, "switch/select")
	case *ast.GoStmt:
		w.emit(s, "go")
		w.expr(s, x.Call)
	case *ast.DeferStmt:
		if sel, ok := x.Call.Fun.(*ast.SelectorExpr); ok && strings.HasSuffix(sel.Sel.Name, "Unlock") && len(x.Call.Args) == 0 {
			w.emit(s, "defer-unlock %s", text(sel.X))
			return
		}
		w.emit(s, "defer")
		w.expr(s, x.Call)
	case *ast.ReturnStmt:
		for _, r := range x.Results {
			w.expr(s, r)
		}
		w.emit(s, "return")
	case *ast.LabeledStmt:
		w.stmt(s, x.Stmt)
	default:
		w.expr(s, st)
	}
}

func main() {
	if len(os.Args) != 3 {
		fmt.Fprintln(os.Stderr, "usage: csconc file.go Func|Recv.Func")
		os.Exit(2)
	}
	f, err := parser.ParseFile(fset, os.Args[1], nil, 0)
	if err != nil {
		fmt.Fprintln(os.Stderr, err)
		os.Exit(1)
	}
	want := os.Args[2]
	for _, d := range f.Decls {
		fd, ok := d.(*ast.FuncDecl)
		if !ok || fd.Body == nil {
			continue
		}
		name := fd.Name.Name
		if fd.Recv != nil && len(fd.Recv.List) == 1 {
			t := fd.Recv.List[0].Type
			if st, ok := t.(*ast.StarExpr); ok {
				t = st.X
			}
			name = text(t) + "." + name
		}
		if name != want {
			continue
		}
		w := &walker{}
		w.block(state{}, fd.Body.List)
		return
	}
	fmt.Fprintln(os.Stderr, "function not found:", want)
	os.Exit(1)
}
