module csconc
go 1.21
