#!/usr/bin/env python3
"""Resolve a merge conflict in known_findings.json: union of both sides (findings by id, fixed by subject)."""
import json, subprocess, re, os
V = os.path.dirname(os.path.dirname(os.path.abspath(__file__)))
def stage(n):
    return json.loads(subprocess.run(["git", "-C", V, "show", ":%d:known_findings.json" % n], stdout=subprocess.PIPE, text=True, check=True).stdout)
a, b = stage(2), stage(3)
out = {"comment": a.get("comment", ""), "findings": [], "fixed": []}
removed = set(l.strip() for l in open(os.path.join(V, 'tools', 'kf_removed.txt')) if l.strip()) if os.path.exists(os.path.join(V, 'tools', 'kf_removed.txt')) else set()
seen = set(removed)
for f in a["findings"] + b["findings"]:
    if f["id"] not in seen:
        seen.add(f["id"]); out["findings"].append(f)
def key(s):
    m = re.search(r"(fix: .*?)(\)| --)", s)
    return m.group(1) if m else s
seen = set()
for f in a["fixed"] + b["fixed"]:
    if key(f) not in seen:
        seen.add(key(f)); out["fixed"].append(f)
json.dump(out, open(os.path.join(V, "known_findings.json"), "w"), indent=1)
print(len(out["findings"]), "findings,", len(out["fixed"]), "fixed")
