#!/bin/sh
# usage: confirm_seed.sh <seed-dir>
# Confirms a seeded mutation independently in a scratch git worktree of /repo:
#   demo passes on the unmodified tree, patch applies, pinned suite passes with the patch, demo fails with it.
# Writes <seed-dir>/confirm.json. Removes the worktree.
S=$(cd "$1" && pwd)
ID=$(basename "$S")
WT=$(mktemp -d /tmp/confirm-$ID-XXXX)
export GOFLAGS=-mod=mod GOPROXY=off GOSUMDB=off GOTOOLCHAIN=local
git -C /repo worktree add -q --detach "$WT" HEAD || exit 2
ns() { unshare -n sh -c 'ip link set lo up; exec "$@"' sh "$@"; }
clean() { git -C "$WT" checkout -q -- . ; git -C "$WT" clean -fdq; }
# 1. demo on the unmodified tree
ns timeout 600 sh "$S/demo/run.sh" "$WT" > "$S/confirm_without.log" 2>&1; R0=$?
clean
# 2. patch applies
git -C "$WT" apply "$S/patch.diff" > "$S/confirm_apply.log" 2>&1; RA=$?
# 3. suite with patch
(cd "$WT" && ns timeout 1500 go test -vet=off -count=1 -timeout 20m ./... ) > "$S/confirm_suite.log" 2>&1; RS=$?
# 4. demo with patch
ns timeout 600 sh "$S/demo/run.sh" "$WT" > "$S/confirm_with.log" 2>&1; R1=$?
cat > "$S/confirm.json" <<J
{"id": "$ID", "demo_without_patch_rc": $R0, "patch_applies_rc": $RA, "suite_with_patch_rc": $RS, "demo_with_patch_rc": $R1,
 "confirmed": $( [ $R0 -eq 0 ] && [ $RA -eq 0 ] && [ $RS -eq 0 ] && [ $R1 -ne 0 ] && echo true || echo false ),
 "base": "$(git -C /repo rev-parse --short HEAD)"}
J
git -C /repo worktree remove --force "$WT"
rm -rf "$WT"
cat "$S/confirm.json"
