#!/usr/bin/env python3
"""Run every live seeded mutation against the check of its own property; write seeded/RESULTS.json.
usage: tools/seedmatrix.py [ID...]   (default: all seeds whose property is claimed)"""
import json, os, subprocess, sys
V = os.path.dirname(os.path.dirname(os.path.abspath(__file__)))
sys.path.insert(0, V)
from vlib.props import PROPS
rp = os.path.join(V, "seeded", "RESULTS.json")
res = json.load(open(rp)) if os.path.exists(rp) else {}
ids = sys.argv[1:] or sorted(d for d in os.listdir(os.path.join(V, "seeded")) if os.path.isdir(os.path.join(V, "seeded", d)))
for sid in ids:
    meta = json.load(open(os.path.join(V, "seeded", sid, "meta.json")))
    pid = meta["property"]
    if meta.get("status", "").startswith("obsolete"):
        res[sid] = {"property": pid, "verdict": "obsolete on the repaired tree (see meta.json)"}
        continue
    if pid not in PROPS:
        continue
    p = subprocess.run([os.path.join(V, "tools", "seedtest.py"), os.path.join(V, "seeded", sid), pid], stdout=subprocess.PIPE, stderr=subprocess.STDOUT, text=True)
    viol = [l.strip() for l in p.stdout.split("\n") if "VIOLATION" in l]
    if "PATCH DOES NOT APPLY" in p.stdout:
        v = "patch does not apply to the current tree"
    elif viol:
        v = "caught, failing input found" if any("no-failing-input-found" not in l for l in viol) else "caught, no-failing-input-found (broken tie/obligation only)"
    else:
        v = "MISSED"
    res[sid] = {"property": pid, "verdict": v, "repo_head": subprocess.run(["git", "-C", "/repo", "rev-parse", "--short", "HEAD"], stdout=subprocess.PIPE, text=True).stdout.strip()}
    print(sid, v, flush=True)
    json.dump(res, open(rp, "w"), indent=1, sort_keys=True)
json.dump(res, open(rp, "w"), indent=1, sort_keys=True)
