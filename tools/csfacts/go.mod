module csfacts
go 1.21
