// csfacts: intraprocedural must-hold lock-set facts for selected functions (DESIGN 2.4c).
//
// usage: csfacts <file.go>... ; prints JSON {"<Recv.Func>": [fact...]} for every function in the files.
// A fact is {kind: access|call|go|lock|unlock|return, expr, write, held: [mutexes held for sure], closure: depth, line}.
// Receiver names are canonicalised to "recv". Function literals are analysed with an empty lock set
// (they run later / elsewhere) and their facts carry closure depth > 0; `defer X.Unlock()` keeps X
// held to the end of the function; branches are merged by intersection; a branch that ends in
// return/panic/continue/break does not contribute to the merge.
package main

import (
	"bytes"
	"encoding/json"
	"fmt"
	"go/ast"
	"go/parser"
	"go/printer"
	"go/token"
	"os"
	"sort"
	"strings"
)

type Fact struct {
	Kind    string   `json:"kind"`
	Expr    string   `json:"expr"`
	Write   bool     `json:"write,omitempty"`
	Held    []string `json:"held"`
	Closure int      `json:"closure"`
	Line    int      `json:"line"`
}

type an struct {
	fset  *token.FileSet
	recv  string
	facts []Fact
	depth int
}

type lockset map[string]bool

func (l lockset) copy() lockset {
	c := lockset{}
	for k, v := range l {
		if v {
			c[k] = true
		}
	}
	return c
}
func (l lockset) list() []string {
	var s []string
	for k, v := range l {
		if v {
			s = append(s, k)
		}
	}
	sort.Strings(s)
	if s == nil {
		s = []string{}
	}
	return s
}
func inter(a, b lockset) lockset {
	c := lockset{}
	for k := range a {
		if a[k] && b[k] {
			c[k] = true
		}
	}
	return c
}

func (a *an) str(e ast.Expr) string {
	var b bytes.Buffer
	printer.Fprint(&b, a.fset, e)
	s := b.String()
	if a.recv != "" {
		if s == a.recv {
			return "recv"
		}
		if strings.HasPrefix(s, a.recv+".") {
			return "recv." + s[len(a.recv)+1:]
		}
		if strings.HasPrefix(s, "&"+a.recv+".") {
			return "&recv." + s[len(a.recv)+2:]
		}
	}
	return s
}

func (a *an) emit(kind, expr string, write bool, held lockset, pos token.Pos) {
	a.facts = append(a.facts, Fact{Kind: kind, Expr: expr, Write: write, Held: held.list(), Closure: a.depth, Line: a.fset.Position(pos).Line})
}

// lockCall recognises X.Lock()/X.Unlock()/X.RLock()/X.RUnlock().
func (a *an) lockCall(e ast.Expr) (string, string, bool) {
	call, ok := e.(*ast.CallExpr)
	if !ok {
		return "", "", false
	}
	sel, ok := call.Fun.(*ast.SelectorExpr)
	if !ok || len(call.Args) != 0 {
		return "", "", false
	}
	switch sel.Sel.Name {
	case "Lock", "RLock":
		return "lock", a.str(sel.X), true
	case "Unlock", "RUnlock":
		return "unlock", a.str(sel.X), true
	}
	return "", "", false
}

// expr records accesses and calls inside an expression evaluated with `held`.
func (a *an) expr(e ast.Node, held lockset, write bool) {
	if e == nil {
		return
	}
	switch x := e.(type) {
	case *ast.FuncLit:
		a.depth++
		a.block(x.Body.List, lockset{})
		a.depth--
	case *ast.CallExpr:
		if k, m, ok := a.lockCall(x); ok {
			a.emit(k, m, false, held, x.Pos())
			return
		}
		if _, isLit := x.Fun.(*ast.FuncLit); isLit {
			a.emit("call", "func-literal", false, held, x.Pos())
		} else {
			a.emit("call", a.str(x.Fun), false, held, x.Pos())
		}
		if sel, ok := x.Fun.(*ast.SelectorExpr); ok {
			a.expr(sel.X, held, false)
		} else if _, ok := x.Fun.(*ast.FuncLit); ok {
			// immediately invoked literal: same lock set
			fl := x.Fun.(*ast.FuncLit)
			a.block(fl.Body.List, held.copy())
		}
		for _, arg := range x.Args {
			a.expr(arg, held, false)
		}
	case *ast.SelectorExpr:
		a.emit("access", a.str(x), write, held, x.Pos())
		a.expr(x.X, held, false)
	case *ast.IndexExpr:
		a.expr(x.X, held, write)
		a.expr(x.Index, held, false)
	case *ast.SliceExpr:
		a.expr(x.X, held, write)
		a.expr(x.Low, held, false)
		a.expr(x.High, held, false)
		a.expr(x.Max, held, false)
	case *ast.StarExpr:
		a.expr(x.X, held, write)
	case *ast.UnaryExpr:
		a.expr(x.X, held, write)
	case *ast.BinaryExpr:
		a.expr(x.X, held, false)
		a.expr(x.Y, held, false)
	case *ast.ParenExpr:
		a.expr(x.X, held, write)
	case *ast.TypeAssertExpr:
		a.expr(x.X, held, false)
	case *ast.CompositeLit:
		for _, el := range x.Elts {
			a.expr(el, held, false)
		}
	case *ast.KeyValueExpr:
		a.expr(x.Value, held, false)
	case *ast.Ident, *ast.BasicLit:
	default:
		// other expression kinds: walk children generically
		ast.Inspect(e, func(n ast.Node) bool {
			if n == e || n == nil {
				return true
			}
			if ex, ok := n.(ast.Expr); ok {
				a.expr(ex, held, false)
				return false
			}
			return true
		})
	}
}

func terminates(list []ast.Stmt) bool {
	if len(list) == 0 {
		return false
	}
	switch s := list[len(list)-1].(type) {
	case *ast.ReturnStmt:
		return true
	case *ast.BranchStmt:
		return s.Tok == token.BREAK || s.Tok == token.CONTINUE || s.Tok == token.GOTO
	case *ast.ExprStmt:
		if c, ok := s.X.(*ast.CallExpr); ok {
			if id, ok := c.Fun.(*ast.Ident); ok && id.Name == "panic" {
				return true
			}
		}
	case *ast.BlockStmt:
		return terminates(s.List)
	}
	return false
}

// block analyses a statement list; returns the lock set at its end.
func (a *an) block(list []ast.Stmt, held lockset) lockset {
	for _, st := range list {
		held = a.stmt(st, held)
	}
	return held
}

func (a *an) stmt(st ast.Stmt, held lockset) lockset {
	switch s := st.(type) {
	case *ast.ExprStmt:
		if k, m, ok := a.lockCall(s.X); ok {
			a.emit(k, m, false, held, s.Pos())
			held = held.copy()
			held[m] = k == "lock"
			return held
		}
		a.expr(s.X, held, false)
	case *ast.DeferStmt:
		if k, m, ok := a.lockCall(s.Call); ok && k == "unlock" {
			a.emit("defer-unlock", m, false, held, s.Pos())
			return held
		}
		if fl, ok := s.Call.Fun.(*ast.FuncLit); ok {
			// deferred closure: runs at function end; locks released inside count as deferred unlocks
			a.depth++
			a.block(fl.Body.List, lockset{})
			a.depth--
			return held
		}
		a.expr(s.Call, held, false)
	case *ast.GoStmt:
		if _, isLit := s.Call.Fun.(*ast.FuncLit); isLit {
			a.emit("go", "func-literal", false, held, s.Pos())
		} else {
			a.emit("go", a.str(s.Call.Fun), false, held, s.Pos())
		}
		if fl, ok := s.Call.Fun.(*ast.FuncLit); ok {
			a.depth++
			a.block(fl.Body.List, lockset{})
			a.depth--
		}
		for _, arg := range s.Call.Args {
			a.expr(arg, held, false)
		}
	case *ast.AssignStmt:
		for _, r := range s.Rhs {
			a.expr(r, held, false)
		}
		for _, l := range s.Lhs {
			a.expr(l, held, true)
		}
	case *ast.IncDecStmt:
		a.expr(s.X, held, true)
	case *ast.ReturnStmt:
		for _, r := range s.Results {
			a.expr(r, held, false)
		}
		a.emit("return", "", false, held, s.Pos())
	case *ast.BlockStmt:
		return a.block(s.List, held)
	case *ast.IfStmt:
		if s.Init != nil {
			held = a.stmt(s.Init, held)
		}
		a.expr(s.Cond, held, false)
		thenEnd := a.block(s.Body.List, held.copy())
		thenTerm := terminates(s.Body.List)
		var elseEnd lockset = held
		elseTerm := false
		if s.Else != nil {
			elseEnd = a.stmt(s.Else, held.copy())
			if b, ok := s.Else.(*ast.BlockStmt); ok {
				elseTerm = terminates(b.List)
			}
		}
		switch {
		case thenTerm && elseTerm:
			return held
		case thenTerm:
			return elseEnd
		case elseTerm:
			return thenEnd
		default:
			return inter(thenEnd, elseEnd)
		}
	case *ast.ForStmt:
		if s.Init != nil {
			held = a.stmt(s.Init, held)
		}
		a.expr(s.Cond, held, false)
		end := a.block(s.Body.List, held.copy())
		if s.Post != nil {
			a.stmt(s.Post, end)
		}
		if s.Cond == nil {
			// `for { ... }`: leaves only through break/return; keep entry set
			return held
		}
		return inter(held, end)
	case *ast.RangeStmt:
		a.expr(s.X, held, false)
		end := a.block(s.Body.List, held.copy())
		return inter(held, end)
	case *ast.SwitchStmt:
		if s.Init != nil {
			held = a.stmt(s.Init, held)
		}
		a.expr(s.Tag, held, false)
		return a.clauses(s.Body.List, held)
	case *ast.TypeSwitchStmt:
		return a.clauses(s.Body.List, held)
	case *ast.SelectStmt:
		return a.clauses(s.Body.List, held)
	case *ast.LabeledStmt:
		return a.stmt(s.Stmt, held)
	case *ast.SendStmt:
		a.expr(s.Chan, held, false)
		a.expr(s.Value, held, false)
	case *ast.DeclStmt:
		if gd, ok := s.Decl.(*ast.GenDecl); ok {
			for _, sp := range gd.Specs {
				if vs, ok := sp.(*ast.ValueSpec); ok {
					for _, v := range vs.Values {
						a.expr(v, held, false)
					}
				}
			}
		}
	}
	return held
}

func (a *an) clauses(list []ast.Stmt, held lockset) lockset {
	var out lockset
	hasDefault := false
	for _, c := range list {
		var body []ast.Stmt
		switch cc := c.(type) {
		case *ast.CaseClause:
			for _, e := range cc.List {
				a.expr(e, held, false)
			}
			body = cc.Body
			if cc.List == nil {
				hasDefault = true
			}
		case *ast.CommClause:
			if cc.Comm != nil {
				a.stmt(cc.Comm, held.copy())
			} else {
				hasDefault = true
			}
			body = cc.Body
		}
		end := a.block(body, held.copy())
		if terminates(body) {
			continue
		}
		if out == nil {
			out = end
		} else {
			out = inter(out, end)
		}
	}
	if out == nil {
		return held
	}
	if !hasDefault {
		out = inter(out, held)
	}
	return out
}

func main() {
	res := map[string][]Fact{}
	for _, path := range os.Args[1:] {
		fset := token.NewFileSet()
		f, err := parser.ParseFile(fset, path, nil, 0)
		if err != nil {
			fmt.Fprintln(os.Stderr, err)
			os.Exit(1)
		}
		for _, d := range f.Decls {
			fd, ok := d.(*ast.FuncDecl)
			if !ok || fd.Body == nil {
				continue
			}
			name := fd.Name.Name
			recv := ""
			if fd.Recv != nil && len(fd.Recv.List) > 0 {
				t := fd.Recv.List[0].Type
				if st, ok := t.(*ast.StarExpr); ok {
					t = st.X
				}
				if id, ok := t.(*ast.Ident); ok {
					name = id.Name + "." + name
				}
				if len(fd.Recv.List[0].Names) > 0 {
					recv = fd.Recv.List[0].Names[0].Name
				}
			}
			a := &an{fset: fset, recv: recv}
			a.block(fd.Body.List, lockset{})
			res[f.Name.Name+"."+name] = a.facts
		}
	}
	b, _ := json.Marshal(res)
	os.Stdout.Write(b)
}
