#!/bin/sh
# resolve the routinely conflicting generated/union files after `git pull` of a family branch
cd "$(dirname "$0")/.."
if git status --short | grep -q "^UU known_findings.json\|^AA known_findings.json"; then python3 tools/mergekf.py || exit 1; fi
python3 tools/fixhashes.py
for f in $(git status --short | grep "^UU evidence/\|^AA evidence/" | awk '{print $2}'); do git checkout --ours "$f"; done
git checkout --ours MANIFEST.json 2>/dev/null
python3 tools/mkmanifest.py
if git status --short | grep -q "^UU\|^AA"; then
  left=$(git status --short | grep "^UU\|^AA" | grep -v "known_findings.json\|MANIFEST.json\|evidence/")
  if [ -n "$left" ]; then echo "UNRESOLVED: $left"; exit 1; fi
fi
python3 - <<'P' || exit 1
import json,glob
json.load(open('known_findings.json')); json.load(open('MANIFEST.json'))
for f in glob.glob('evidence/*.json'): json.load(open(f))
P
git add -A && git commit -qm "$1" && echo merged
