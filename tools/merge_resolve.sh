#!/bin/sh
# resolve the two routinely conflicting generated/union files after `git pull` of a family branch
cd "$(dirname "$0")/.."
python3 tools/mergekf.py && python3 tools/fixhashes.py
git checkout --ours MANIFEST.json 2>/dev/null
python3 tools/mkmanifest.py
python3 -c "import json;json.load(open('known_findings.json'));json.load(open('MANIFEST.json'))" && git add -A && git commit -qm "$1" && echo merged
