#!/bin/sh
# usage: seedall.sh <out-file> <seed-id>:<PROP,PROP>...   runs tools/seedtest.py for each, appends one line per (seed, prop)
OUT=$1; shift
cd "$(dirname "$0")/.."
for item in "$@"; do
  s=${item%%:*}; props=$(echo ${item#*:} | tr ',' ' ')
  tools/seedtest.py seeded/$s $props 2>&1 | awk -v s=$s '/^C[0-9]+$/ {p=$0} /CAUGHT|missed|PATCH/ {st=$0} /^  VIOLATION/ && !seen[p] {seen[p]=1; print s, p, st, $0} /missed|PATCH/ {print s, p, st}' >> $OUT
done
echo done >> $OUT
