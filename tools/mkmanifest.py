#!/usr/bin/env python3
"""Regenerate /verif/MANIFEST.json from vlib/props_*.py and not_applicable.json."""
import json
import os
import sys

V = os.path.dirname(os.path.dirname(os.path.abspath(__file__)))
sys.path.insert(0, V)
from vlib.props import PROPS  # noqa: E402

allp = [json.loads(l)["id"] for l in open(os.path.join(V, "properties.jsonl"))]
na = json.load(open(os.path.join(V, "not_applicable.json")))
claimed = [p for p in allp if p in PROPS]
checks = []
for p in claimed:
    m = PROPS[p]["manifest"]
    checks.append({
        "property_id": p,
        "quick_cmd": "./check %s --tier quick" % p,
        "thorough_cmd": "./check %s --tier thorough" % p,
        "evidence_file": "/verif/evidence/%s.json" % p,
        "replay_cmd_template": "./check %s --replay {path}" % p,
        "engine": "lean-model",
        "level_claimed": {"category": "proof", "text": m["text"], "design_ref": "DESIGN.md section 6 (%s) and section 12" % p},
        "level_note": m["note"],
        "technique": m["technique"],
    })
man = {
    "version": 1,
    "setup_cmd": "./setup.sh",
    "hooks": {
        "guard": "verif",
        "enable": "each check copies /repo's working tree to a scratch directory, adds the //go:build verif hook files from "
                  "/verif/hooks, reroutes syscall.* and atomic.Add* calls of package nbio to the vsys shim with /verif/tools/rewriter, "
                  "and builds /verif/harness against that copy with -tags verif; nothing is committed to /repo for instrumentation",
        "baseline_off_cmd": "cd /repo && go test -mod=mod -vet=off -count=1 -timeout 25m ./...",
        "source_commits": [],
        "add_only": True,
    },
    "engines": [
        {"name": "lean-model", "path": "/verif/lean", "serves_properties": claimed,
         "kind_free_text": "Lean 4 models, theorems (Properties/), audits and compiled model drivers"},
        {"name": "go-harness", "path": "/verif/harness", "serves_properties": claimed,
         "kind_free_text": "generators and executors driving the real Go code (line protocol), direct oracles"},
    ],
    "checks": checks,
    "not_applicable": [{"property_id": p, "reason": na.get(p, "check not built yet (planned; see DESIGN.md section 10)")}
                       for p in allp if p not in PROPS],
    "notes": "All checks: ./check <ID> --tier quick|thorough. See DESIGN.md.",
}
json.dump(man, open(os.path.join(V, "MANIFEST.json"), "w"), indent=1)
print("claimed:", " ".join(claimed))
